"""C07 - validation outcomes do not depend on thread interleaving.

2..3 threads each run one ``validate`` call under the harness-owned scheduler of ``_c07_sched`` (yield
points = call/return events of frames of the imported pandera package; one thread runs at a time; the
schedule ``[[thread, run_length], ...]`` is part of the case).  Oracle: the outcome of every call equals
the outcome of the same call run alone on freshly built objects, and after all calls finished the config
state and the structural fingerprint of every schema equal their values before the run.

Families
  single  exhaustive per workload: every single-preemption schedule (thread i runs p yield points, thread j
          runs to completion, the rest is run to completion in index order) for all ordered pairs (i, j), all p
  double  grid of two-preemption schedules (i runs p, j runs q, i finishes, j finishes): reaches the
          enter/enter/exit/exit orders that leave a stale override installed
  multi   Hypothesis: generated workloads (schema, data with <=1..2 injected faults, call options) x schedules
          with 2..6 segments

Workload classes.  `expect=independent` classes are schedule-independent on the pinned tree and are scored
strictly: distinct pandas schema objects; one shared pandas schema whose per-call component override is a
no-op (no component-level coerce, no regex column); a shared not-yet-compiled DataFrameModel.  The other
classes contain the trigger of a recorded defect (shared pandas schema with component coerce or a regex
column; any call that writes the module-global context config: polars validate or user config_context);
there a discrepancy is attributed to the recorded defect only when the outcome is *explained* by it (see
_explain: the same call, run ALONE, gives the observed outcome once the recorded mechanism is applied - depth
forced, coerce switched off, component renamed - and the scheduler saw the thread resume with that piece of
shared state changed), and a stale override left behind counts only after two preemptions inside the window.
Everything else is reported.  Regex columns appear only in one fixed thorough-tier workload.
"""
from __future__ import annotations

import itertools
import json
import os
import re

from hypothesis import strategies as st

from .. import fp, known
from ..core import Eval, Family, HarnessError, canon
from . import _c07_sched as sched
from . import _c07_work as work

PROPERTY = "C07"
LEVEL = "exploration"
RULE = (
    "A case = workload (2..3 validate calls built from a JSON spec) x schedule [[thread, run_length],...] executed "
    "by a deterministic scheduler whose yield points are the call/return events of pandera frames. 'single' "
    "enumerates ALL single-preemption schedules of each listed workload (exhaustive for that layer only); "
    "'double' is a grid of two-preemption schedules; 'multi' draws workloads and 2..6-segment schedules with "
    "Hypothesis. Non-trivial: >=1 preemption takes place while the preempted thread is inside a window "
    "(pandas run_schema_component_checks / validate_column, or an open config_context) as observed by the "
    "trace function, and the execution is conclusive. Distinct = hash of the canonical JSON case. Classes "
    "labelled expect=independent (distinct pandas schemas; shared pandas schema with no component coerce/regex; "
    "shared cold DataFrameModel) carry no known-finding trigger and are scored strictly; generated cfg-class "
    "calls carry at most one injected fault and never an uncoercible value on a coerced polars column."
)
ASSUMPTIONS = [
    "preemption granularity is a pandera call/return boundary (the property's quantifier), not a bytecode; "
    "pandas/polars internals and polars' Rust pool are sequentialised by construction; GIL builds only",
    "the solo run of each call on freshly built, equal objects is the reference outcome (run twice; a workload "
    "whose solo outcome is not reproducible is skipped)",
    "an execution stopped by the watchdog (a thread blocked on a lock held by a parked thread, or an extremely "
    "slow machine) is inconclusive and not scored",
    "no yield while any <module> frame is on the thread's stack (import lock); the cold BACKEND_REGISTRY (first "
    "validate calls of a process) is explored by the 'cold' family, one freshly started interpreter per schedule "
    "(single preemption, dense over the first yield points); MODEL_CACHE is explored through fresh model classes",
    "returned frames / failure cases are compared by value (fp.snapshot), error text after scrubbing addresses",
]

DEPTHS = work.DEPTHS
INF = sched.INF


# --------------------------------------------------------------------------- helpers


def _reset_config():
    from pandera import config

    config.reset_config_context()


_BASE_CACHE = {}


def _solo(w, i, force_depth=None, coerce_off=(), force_lazy=False):
    """Outcome of call i run alone on fresh objects (no tracing)."""
    _reset_config()
    if force_lazy:
        w = dict(w, calls=[dict(c, lazy=True) for c in w["calls"]])
    objs = work.Objects(w, only_call=i, coerce_off=coerce_off)
    fn = objs.call(i, force_depth=force_depth)
    try:
        res = ("ok", fn())
    except BaseException as e:  # noqa: BLE001
        res = ("exc", e)
    out = work.normalise(res)
    _reset_config()
    return out


def _baseline(w):
    key = canon(w)
    b = _BASE_CACHE.get(key)
    if b is not None:
        return b
    if len(_BASE_CACHE) > 200:
        _BASE_CACHE.clear()
    n = len(w["calls"])
    first = [_solo(w, i) for i in range(n)]
    second = [_solo(w, i) for i in range(n)]
    b = {"solo": first, "stable": canon(first) == canon(second), "steps": None, "expl": {},
         # no pandera call is in flight here: a pandera lock that is held now was leaked by one of the solo calls
         "held_after_solo": [list(x) for x in sched.held_pandera_locks()]}
    _BASE_CACHE[key] = b
    return b


def _steps(w):
    """Yield points per thread of the sequential execution (after the warm-up done by the baseline)."""
    b = _baseline(w)
    if b["steps"] is None and b["held_after_solo"]:
        b["steps"] = [2] * len(w["calls"])  # (evaluate reports the leaked lock; a traced run would only stall on it)
    if b["steps"] is None:
        _reset_config()
        objs = work.Objects(w)
        r = sched.Sched([objs.call(i) for i in range(len(w["calls"]))], [[0, INF]]).run()
        _reset_config()
        if r.status != "ok":
            raise HarnessError(f"sequential execution of workload {w.get('name')} inconclusive: {r.why}")
        b["steps"] = list(r.steps)
    return b["steps"]


def _schema_fps(objs, w):
    out = []
    for spec, s in zip(w["schemas"], objs.schemas):
        if isinstance(s, type):  # DataFrameModel: the compiled schema (twin class before, shared class after)
            try:
                out.append(fp.fingerprint(s.to_schema()))
            except Exception as e:  # noqa: BLE001
                out.append({"to_schema-raised": type(e).__name__})
        else:
            out.append(fp.fingerprint(s))
    return out


def _classify_schema_diff(diffs):
    tails = set()
    for d in diffs:
        path = d["path"]
        parts = [p for p in path.replace("[", ".").split(".") if p and not p.rstrip("]").isdigit() and p != "dict"]
        comp = any(p in ("columns", "index", "indexes") for p in parts)
        attr = next((p for p in parts if p in ("coerce", "_coerce", "dtype", "_dtype", "name", "_name")), None)
        if comp and attr in ("coerce", "_coerce"):
            tails.add("component-coerce")
        elif comp and attr in ("dtype", "_dtype"):
            tails.add("component-dtype")
        elif comp and attr in ("name", "_name"):
            tails.add("component-name")
        else:
            tails.add("other:" + (parts[-1] if parts else "?").rstrip("]")[:30])
    return "+".join(sorted(tails))


def _explain(w, i, observed, base, feats, interfered):
    """Which recorded mechanism, if any, reproduces the observed outcome of call i in a SOLO run.

    depth-explained    : equals the solo outcome with the context validation depth forced to some depth, and
                         the thread demonstrably resumed with a changed context config
    coercion-skipped   : equals the solo outcome on a schema where a subset of the components that have
                         coerce=True have it switched off, and the thread resumed with changed component attrs
    """
    obs = canon(observed)
    cache = base["expl"]
    if "config" in interfered:
        for d in DEPTHS:
            k = ("depth", i, d)
            if k not in cache:
                cache[k] = canon(_solo(w, i, force_depth=d))
            if cache[k] == obs:
                return "depth-explained", {"as_if_depth": d}
        # the depth seen by the call changed WHILE it ran: every individual check was run or skipped according to
        # the depth at its own time, so the errors are a mix of the single-depth error sets
        per_depth = []
        for d in DEPTHS:
            k = ("depth-lazy", i, d)
            if k not in cache:
                cache[k] = _solo(w, i, force_depth=d, force_lazy=True)
            per_depth.append(cache[k])
        sets = [_entries(o) for o in per_depth]
        mine = _entries(observed)
        if mine is not None and all(x is not None for x in sets):
            union = set().union(*sets)
            inter = set(sets[0]).intersection(*sets[1:])
            ok_values = [canon(o["value"]) for o in per_depth + [base["solo"][i]] if o.get("k") == "ok"]
            if observed.get("k") == "ok":
                if not inter and canon(observed["value"]) in ok_values:
                    return "depth-mixed-explained", {"as_if": "every failing check skipped at its own time"}
            elif observed.get("k") == "SchemaErrors":
                if set(mine) <= union and inter <= set(mine):
                    return "depth-mixed-explained", {"as_if": "subset of the single-depth error sets"}
            elif observed.get("k") == "SchemaError" and not w["calls"][i].get("lazy"):
                if mine[0] in union:
                    return "depth-mixed-explained", {"as_if": "first error among the checks not skipped"}
    spec = w["schemas"][w["calls"][i]["s"]]
    comps = work.coerce_components(spec)
    if comps and "schema-attrs" in interfered and spec["be"] == "pd":
        subsets = [c for r in range(1, len(comps) + 1) for c in itertools.combinations(comps, r)][:15]
        for sub in subsets:
            k = ("coerce_off", i, sub)
            if k not in cache:
                cache[k] = canon(_solo(w, i, coerce_off=sub))
            if cache[k] == obs:
                return "coercion-skipped", {"as_if_coerce_off": list(sub)}
    regex_cols = [c for c in spec["cols"] if c.get("regex")]
    if regex_cols and "schema-attrs" in interfered and spec["be"] == "pd":
        # ColumnBackend.validate temporarily renames the shared regex Column to the column it is validating
        pats = {c["n"] for c in regex_cols}
        if observed.get("k") == "exc" and observed.get("type") == "KeyError" and \
                observed.get("msg", "").strip("'\"") in pats:
            return "regex-name-overridden", {"as_if": "pattern looked up as a column label"}
        data_cols = list(w["calls"][i]["data"]["cols"])
        names = sorted(pats | {m for c in regex_cols for m in data_cols if re.match(c["n"], m)}, key=len, reverse=True)

        def modulo_names(txt):
            # the same verdict reported under the pattern instead of the matched label (or vice versa)
            for nm in names:
                txt = txt.replace(json.dumps(nm)[1:-1], "<NAME>")
            return txt

        errs = observed.get("errors") or ([observed["error"]] if observed.get("k") == "SchemaError" else [])
        if any(isinstance(e, dict) and e.get("reason") == "WRONG_FIELD_NAME" and
               any(("field_name(%r)" % nm) in str(e.get("check")) for nm in names) for e in errs):
            # the name check compared the series with the name another thread had just installed/restored
            return "regex-name-overridden", {"as_if": "field-name check against the other thread's name"}
        if any(isinstance(e, dict) and e.get("reason") == "CHECK_ERROR" and
               any(("KeyError(\"%s\")" % nm) in str(e.get("msg")) or ("KeyError('%s')" % nm) in str(e.get("msg"))
                   for nm in names) for e in errs):
            return "regex-name-overridden", {"as_if": "check looked the component up under the other thread's name"}
        if modulo_names(obs) == modulo_names(canon(base["solo"][i])):
            return "regex-name-overridden", {"as_if": "same verdict, component reported under another name"}
        for c in regex_cols:
            for m in data_cols:
                if not re.match(c["n"], m):
                    continue
                k = ("regex-as", i, c["n"], m)
                if k not in cache:
                    w2 = json.loads(json.dumps(w))
                    for c2 in w2["schemas"][w["calls"][i]["s"]]["cols"]:
                        if c2["n"] == c["n"]:
                            c2["n"], c2["regex"] = m, False
                    cache[k] = canon(_solo(w2, i))
                if modulo_names(cache[k]) == modulo_names(obs):
                    return "regex-name-overridden", {"as_if_name": m}
    return "unexplained", {}


def _entries(o):
    """Error entries of an outcome as canonical strings (None: not a validation verdict)."""
    def key(e):
        e = dict(e)
        e.pop("msg", None)  # the text of a lazily collected error may carry extra context
        return canon(e)

    if o.get("k") == "ok":
        return []
    if o.get("k") == "SchemaErrors":
        return [key(e) for e in o["errors"] if isinstance(e, dict)]
    if o.get("k") == "SchemaError":
        return [key(o["error"])]
    return None


# -------------------------------------------------------------------------- evaluate


def _check_case(case):
    try:
        w = case["workload"]
        calls, schemas = w["calls"], w["schemas"]
        assert 1 <= len(calls) <= 4 and all(0 <= c["s"] < len(schemas) for c in calls)
        assert all(c["form"] in ("pd", "pl_df", "pl_lf") for c in calls)
        assert all((c["form"] == "pd") == (schemas[c["s"]]["be"] == "pd") for c in calls)
        assert all(len(seg) == 2 for seg in case["schedule"])
    except (AssertionError, KeyError, TypeError) as e:
        raise HarnessError(f"malformed C07 case: {e!r}")


def evaluate(case):
    _check_case(case)
    ev = Eval()
    w = case["workload"]
    schedule = case["schedule"]
    n = len(w["calls"])
    feats = work.features(w)
    ev.labels.append("class=" + feats["class"])
    ev.labels.append("expect=independent" if feats["expect_independent"] else "expect=known-race-class")
    ev.labels.append(f"threads={n}")

    held0 = sched.held_pandera_locks()
    base = _baseline(w)
    if held0 or base["held_after_solo"]:
        # between evaluations nothing of pandera is running in this process: a held lock was leaked by a finished call
        ev.add("lock-left-held-by-finished-call", {"locks": [list(x) for x in held0] or base["held_after_solo"],
                                                   "solo": [work.brief(x) for x in base["solo"]]})
        return ev
    if not base["stable"]:
        ev.skipped = "solo-outcome-not-reproducible"
        return ev

    # process-wide memo tables keyed by the kind of object seen last (dispatchers, registries) are part of the state a
    # schedule starts from: when the workload mixes backends, the last validation before the scheduled run is one of the
    # *other* backend than the thread that runs first, so that this thread starts "cold" with respect to such tables
    first = schedule[0][0]
    be = [work.backend_of(c) for c in w["calls"]]
    if len(set(be)) > 1:
        other = next((k for k in range(n) if be[k] != be[first]), None)
        if other is not None:
            _solo(w, other)
    _reset_config()
    twin_fps = _schema_fps(work.Objects(w, only_call=-1), w) if feats["model"] else None
    objs = work.Objects(w)
    fps_before = twin_fps if twin_fps is not None else _schema_fps(objs, w)
    cfg_before = fp.config_state()
    fns = [objs.call(i) for i in range(n)]
    # the interpreter-wide warnings filters are shared state as well: a known, recognisable list while the calls run
    import re as _re
    import warnings

    saved_filters = warnings.filters[:]
    sentinel = [("ignore", _re.compile("c07-sentinel-a"), Warning, None, 0), ("ignore", None, Warning, None, 0),
                ("ignore", _re.compile("c07-sentinel-b"), Warning, None, 0)]
    warnings.filters[:] = sentinel
    warnings._filters_mutated()
    try:
        r = sched.Sched(fns, schedule, probe=objs.probe, lines=bool(case.get("lines"))).run()
        filters_after = warnings.filters[:]
    finally:
        warnings.filters[:] = saved_filters
        warnings._filters_mutated()
    cfg_after = fp.config_state()
    _reset_config()
    if r.status == "deadlock":
        # not a time budget: the lock's holder has finished, so the stalled call can never proceed
        ev.add("deadlock:lock-left-held-by-finished-call", {"why": r.why, "locks": [list(x) for x in r.held_locks],
                                                            "results": [work.brief(work.normalise(x)) if x else None
                                                                        for x in r.results]})
        return ev
    if r.status != "ok":
        ev.skipped = "inconclusive-watchdog"
        return ev
    if r.held_locks:
        ev.add("lock-left-held-after-all-calls-finished", {"locks": [list(x) for x in r.held_locks]})
    if case.get("lines"):
        ev.labels.append("granularity=line")

    in_window = sorted({k for p in r.preemptions for k in p["windows"]})
    ev.nontrivial = bool(in_window)
    ev.labels.append(f"preemptions={min(len(r.preemptions), 6)}")
    for k in in_window:
        ev.labels.append("preempted-in-window=" + k)
    if not in_window:
        ev.labels.append("preempted-in-window=none")
    if any(r.interfered):
        ev.labels.append("interference=" + "+".join(sorted({k for s in r.interfered for k in s})))

    # (1) every call's outcome equals its solo outcome
    for i in range(n):
        got = work.normalise(r.results[i])
        if canon(got) == canon(base["solo"][i]):
            continue
        how, extra = _explain(w, i, got, base, feats, r.interfered[i])
        ev.add("outcome-differs:" + how, {
            "call": i, "form": w["calls"][i]["form"], **extra,
            "expected_solo": work.brief(base["solo"][i]), "observed": work.brief(got),
            "interfered": sorted(r.interfered[i]), "preemptions": r.preemptions[:6],
        })

    # (2) process configuration as before
    if cfg_after != cfg_before:
        changed = sorted(k for k in cfg_after["context"] if cfg_after["context"][k] != cfg_before["context"].get(k))
        if cfg_after["global"] != cfg_before["global"]:
            changed.append("GLOBAL")
        ev.add("config-leak:" + "+".join(changed), {"before": cfg_before, "after": cfg_after,
                                                    "preemptions": r.preemptions[:6]})

    # (2b) warnings filters as before
    if filters_after != sentinel:
        ev.add("warnings-filters-leak", {"before": [str(f[:2]) for f in sentinel], "after": [str(f[:2]) for f in filters_after][:6],
                                         "preemptions": r.preemptions[:6]})

    # (3) every schema as before
    try:
        fps_after = _schema_fps(objs, w)
    except Exception as e:  # noqa: BLE001 - a schema that cannot be dumped any more has changed
        fps_after = [{"fingerprint-raised": type(e).__name__}] * len(fps_before)
    for si, (a, b) in enumerate(zip(fps_before, fps_after)):
        if a != b:
            diffs = fp.fp_diff(a, b)
            ev.add("schema-state-changed:" + _classify_schema_diff(diffs),
                   {"schema": si, "shared_by_calls": [i for i, c in enumerate(w["calls"]) if c["s"] == si],
                    "diff": diffs[:6], "preemptions": r.preemptions[:6]})
    return ev


# ------------------------------------------------------------------ known findings


def _preempted_in(disc, window, at_least):
    """Number of preemptions of the execution that happened inside the given window kind."""
    pre = (disc.detail or {}).get("preemptions") or []
    return sum(1 for p in pre if window in p.get("windows", ())) >= at_least


@known.finding("C07/shared-pandas-schema-coerce")
def _(family, case, disc):
    f = work.features(case["workload"])
    if not f["pd_override"]:
        return False
    if disc.kind == "outcome-differs:coercion-skipped":
        # trigger: shared pandas schema with component coerce; symptom: the call behaves as if coerce were off,
        # after a preemption inside run_schema_component_checks
        return _preempted_in(disc, "pd-component-override", 1)
    # enter/enter/exit/exit order of two overrides leaves the second thread's snapshot (coerce=False) installed:
    # needs two preemptions inside the window (a sequential or single-preemption leak is something else)
    return disc.kind == "schema-state-changed:component-coerce" and disc.detail["schema"] in f["shared_pd"] \
        and _preempted_in(disc, "pd-component-override", 2)


@known.finding("C07/shared-pandas-schema-regex-name")
def _(family, case, disc):
    f = work.features(case["workload"])
    if not f["pd_regex"]:
        return False
    if disc.kind == "outcome-differs:regex-name-overridden":
        return _preempted_in(disc, "pd-column-name-override", 1)
    return disc.kind == "schema-state-changed:component-name" and disc.detail["schema"] in f["shared_pd"] \
        and _preempted_in(disc, "pd-column-name-override", 2)


@known.finding("C07/global-config-context")
def _(family, case, disc):
    f = work.features(case["workload"])
    if not f["cfg_writer"]:
        return False
    if disc.kind in ("outcome-differs:depth-explained", "outcome-differs:depth-mixed-explained"):
        return True  # _explain already requires that the thread resumed with a changed context config
    # stale override left installed: enter/enter/exit/exit, i.e. two preemptions with a config_context open
    return disc.kind == "config-leak:validation_depth" and _preempted_in(disc, "config-context", 2)


# ------------------------------------------------------------------------ workloads

_INT_OK = [3, 1, 4, 2]
_FLT_OK = [0.5, 2.5, 1.5, 3.5]
_STR_OK = ["x", "y", "zz", "x"]


def _col(n, dt="int64", **kw):
    c = {"n": n, "dt": dt, "coerce": False, "nullable": False, "unique": False, "required": True, "regex": False,
         "default": None, "checks": []}
    c.update(kw)
    return c


def _schema(be, cols, **kw):
    s = {"be": be, "model": False, "cols": cols, "coerce": False, "strict": False, "ordered": False, "index": None,
         "checks": [], "unique": None, "add_missing": False}
    s.update(kw)
    return s


def _call(s, form, cols, **kw):
    c = {"s": s, "form": form, "data": {"cols": cols, "index": None}, "lazy": False, "head": None, "inplace": False,
         "ctx": None}
    if "index" in kw:
        c["data"]["index"] = kw.pop("index")
    if "mindex" in kw:
        c["data"]["mindex"] = kw.pop("mindex")
    if "series" in kw:
        c["data"]["series"] = kw.pop("series")
    if "int_labels" in kw:
        c["data"]["int_labels"] = kw.pop("int_labels")
    c.update(kw)
    return c


def _obj_call(s, cols, **kw):
    c = _call(s, "pd", cols, **kw)
    c["data"]["object_cols"] = sorted(cols)
    return c


def _wl(name, schemas, calls):
    return {"name": name, "schemas": schemas, "calls": calls}


def fixed_workloads():
    """name -> workload.  The first QUICK entries form the quick tier."""
    W = []
    gt0 = [["gt", 0]]
    # ---- schedule-independent classes (scored strictly)
    W.append(_wl("pd-shared-noop/pass+fail", [_schema("pd", [_col("a", checks=gt0)], coerce=True)], [
        _call(0, "pd", {"a": [1, 2]}),
        _call(0, "pd", {"a": ["-1", "2"]}),
    ]))
    W.append(_wl("pd-distinct/coerce+fail", [
        _schema("pd", [_col("a", coerce=True, checks=gt0)]),
        _schema("pd", [_col("a", coerce=True, checks=gt0)]),
    ], [
        _call(0, "pd", {"a": ["1", "2"]}),
        _call(1, "pd", {"a": ["3", "-4"]}),
    ]))
    W.append(_wl("pd-shared-noop/schema-coerce+index+filter", [
        _schema("pd", [_col("a", checks=gt0), _col("b", "str", required=False)], coerce=True, strict="filter",
                index={"dt": "int64", "coerce": False, "checks": [["ge", 0]]}),
    ], [
        _call(0, "pd", {"a": ["1", "2"], "zz": [1, 2]}, index=[0, 1], lazy=True),
        _call(0, "pd", {"a": [5, 6], "b": ["x", "y"]}, index=[3, -4]),
    ]))
    # one MultiIndex schema shared by frames whose level names repeat (validated under per-call renamed level schemas)
    # and frames with ordinary level names
    W.append(_wl("pd-shared-noop/multiindex-dup-level-names", [
        _schema("pd", [_col("x")], entry="mindex",
                mindex={"levels": [{"dt": "int64", "name": "a", "checks": [["ge", 0]]}, {"dt": "int64", "name": None}]}),
    ], [
        _call(0, "pd", {"x": [1, 2]}, mindex={"arrays": [[1, 2], [1, 2], [3, 4]], "names": ["a", "a", None]}),
        _call(0, "pd", {"x": [5, 6]}, mindex={"arrays": [[-1, 2], [3, 4]], "names": ["a", None]}, lazy=True),
    ]))
    # a SeriesSchema whose Index component coerces, shared by calls that need the coercion
    W.append(_wl("pd-shared-noop/series-index-coerce", [
        _schema("pd", [_col("v", checks=gt0)], entry="series", index={"dt": "int64", "coerce": True, "checks": [["ge", 0]], "name": None}),
    ], [
        _call(0, "pd", {"v": [1, 2, 3]}, index=["10", "20", "30"], series=True),
        _call(0, "pd", {"v": [4, 5]}, index=["1", "-2"], lazy=True, series=True),
    ]))
    # the same built-in checks dispatched for a pandas and for a polars object at the same time
    W.append(_wl("pd+pl-distinct/shared-builtin-checks", [
        _schema("pd", [_col("a", checks=[["gt", 0], ["lt", 100]])]),
        _schema("pl", [_col("a", checks=[["gt", 0], ["lt", 100]])]),
    ], [
        _call(0, "pd", {"a": [1, 2]}),
        _call(1, "pl_df", {"a": [3, 400]}, lazy=True),
    ]))
    # one schema with a regex column (validated per matched column) shared by two calls
    W.append(_wl("pd-shared-regex/two-matches", [_schema("pd", [_col("^a.*$", regex=True, checks=gt0)])], [
        _call(0, "pd", {"a1": [1, 2], "a2": [3, 4]}),
        _call(0, "pd", {"a1": [1, 2], "a2": [-3, 4]}),
    ]))
    # a dtype-only schema (column components are made per data column) on frames whose labels print alike: 0 and "0"
    W.append(_wl("pd-shared-noop/dtype-only+labels-0-and-'0'", [
        dict(_schema("pd", []), dtype="int64"),
    ], [
        _call(0, "pd", {"0": [1, 2], "1": [3, 4]}, int_labels=True),
        _call(0, "pd", {"0": [1, 2], "1": ["x", "y"]}, lazy=True),
    ]))
    # seeded samples drawn by concurrent calls: each call validates the rows its own seed selects
    W.append(_wl("pd-distinct/seeded-samples", [
        _schema("pd", [_col("a", checks=gt0)]),
        _schema("pd", [_col("a", checks=gt0)]),
    ], [
        _call(0, "pd", {"a": [1, -2, 3, 4, -5, 6, 7, 8]}, sample=3, random_state=1),
        _call(1, "pd", {"a": [1, 2, -3, 4, 5, -6, 7, 8]}, sample=3, random_state=2, lazy=True),
    ]))
    # a model whose definition is broken (its first use raises SchemaInitError) next to a healthy model nobody has
    # compiled yet: the failing compilation must not keep anything (a lock, a half-built cache entry) from the other
    W.append(_wl("pd-distinct/model-broken+model-cold", [
        dict(_schema("pd", [_col("a")]), model=True, broken=True),
        dict(_schema("pd", [_col("a", checks=gt0)], strict=True), model=True),
    ], [
        _call(0, "pd", {"a": [1, 2]}),
        _call(1, "pd", {"a": [1, -2]}, lazy=True),
    ]))
    # ---- classes that contain the trigger of a recorded defect
    W.append(_wl("pd-shared-override/column-coerce", [_schema("pd", [_col("a", coerce=True)])], [
        _call(0, "pd", {"a": [1, 2]}),
        _call(0, "pd", {"a": ["1", "2"]}),
    ]))
    pl_gt = _schema("pl", [_col("a", checks=gt0)])
    W.append(_wl("cfg/pl_df+pl_lf", [pl_gt, pl_gt], [
        _call(0, "pl_df", {"a": [1, 2]}),
        _call(1, "pl_lf", {"a": [-1, 2]}),
    ]))
    W.append(_wl("cfg/pl-shared-coerce/df+df", [_schema("pl", [_col("a", coerce=True, checks=gt0)])], [
        _call(0, "pl_df", {"a": ["1", "2"]}),
        _call(0, "pl_df", {"a": ["3", "-4"]}),
    ]))
    W.append(_wl("cfg/ctx+pd", [_schema("pd", [_col("a", checks=gt0)]), _schema("pd", [_col("a", checks=gt0)])], [
        _call(0, "pd", {"a": [1, 2]}, ctx="SCHEMA_ONLY"),
        _call(1, "pd", {"a": [-1, 2]}),
    ]))
    # check options of a *shared* check object (dataframe-level checks are not copied per call) together with
    # drop_invalid_rows: every call drops what it drops alone, and the option is as it was afterwards
    W.append(_wl("pd-shared-noop/drop+n_failure_cases", [
        _schema("pd", [_col("a")], checks=[["gt", 0, {"n_failure_cases": 1}]], drop=True),
    ], [
        _call(0, "pd", {"a": [1, -2, 3, -4]}, lazy=True),
        _call(0, "pd", {"a": [1, 2, -2, 3, -3]}, lazy=True),
    ]))
    # ---- thorough tier additions
    W.append(_wl("pd-shared-noop/schema-coerce+index+filter/lazyfail", [
        _schema("pd", [_col("a", checks=gt0), _col("b", "str", required=False)], coerce=True, strict="filter",
                index={"dt": "int64", "coerce": False, "checks": [["ge", 0]]}),
    ], [
        _call(0, "pd", {"a": ["1", "2"], "zz": [1, 2]}, index=[0, 1]),
        _call(0, "pd", {"a": [5, -6], "b": ["x", "y"]}, index=[3, -4], lazy=True),
    ]))
    W.append(_wl("pd-shared-noop/model-cold", [
        dict(_schema("pd", [_col("a", checks=gt0), _col("b", "str", checks=[["isin", ["x", "y"]]])], strict=True), model=True),
    ], [
        _call(0, "pd", {"a": [1, 2], "b": ["x", "y"]}),
        _call(0, "pd", {"a": [1, -2], "b": ["x", "q"]}, lazy=True),
    ]))
    s_ab = _schema("pd", [_col("a", checks=gt0), _col("b", "float64", checks=[["lt", 10.0]])])
    W.append(_wl("pd-shared-noop/pass+lazyfail", [s_ab], [
        _call(0, "pd", {"a": [1, 2], "b": [0.5, 1.5]}),
        _call(0, "pd", {"a": [-1, 2], "b": [0.5, 11.5]}, lazy=True),
    ]))
    W.append(_wl("pd-shared-noop/3-threads", [_schema("pd", [_col("a", checks=gt0)])], [
        _call(0, "pd", {"a": [1, 2]}),
        _call(0, "pd", {"a": [-1, 2]}),
        _call(0, "pd", {"a": ["q", "r"]}, lazy=True),
    ]))
    W.append(_wl("pd-shared-noop/options", [
        _schema("pd", [_col("a", unique=True, checks=[["fn_gt", 0], ["el_gt", -100]]), _col("b", "float64", nullable=True),
                       _col("c", "str", required=False, default="d", nullable=True)],
                ordered=True, unique=["a", "b"], checks=[["frame_col_lt", "a", 100]], add_missing=True),
    ], [
        _call(0, "pd", {"a": [1, 2, 3], "b": [0.5, None, 1.5]}, head=2),
        _call(0, "pd", {"a": [1, 1, 300], "b": [0.5, 0.5, 1.5], "c": ["x", None, "y"]}, lazy=True, inplace=True),
    ]))
    W.append(_wl("cfg/pd+pl_lf", [_schema("pd", [_col("a", checks=gt0)]), pl_gt], [
        _call(0, "pd", {"a": [-1, 2]}),
        _call(1, "pl_lf", {"a": [1, 2]}),
    ]))
    W.append(_wl("pd-shared-override/index-coerce+2cols", [
        _schema("pd", [_col("a", coerce=True), _col("b", "float64", coerce=True)],
                index={"dt": "int64", "coerce": True, "checks": []}),
    ], [
        _call(0, "pd", {"a": [1, 2], "b": [0.5, 1.5]}, index=[0, 1]),
        _call(0, "pd", {"a": ["1", "2"], "b": [1, 2]}, index=["0", "1"], lazy=True),
    ]))
    W.append(_wl("cfg/pl_df+pl_df+pl_lf", [pl_gt, pl_gt, pl_gt], [
        _call(0, "pl_df", {"a": [1, 2]}),
        _call(1, "pl_df", {"a": [-1, 2]}),
        _call(2, "pl_lf", {"a": [-1, 2]}),
    ]))
    W.append(_wl("pd-distinct/3-threads", [
        _schema("pd", [_col("a", coerce=True, checks=gt0)]),
        _schema("pd", [_col("a", "float64", coerce=True)], coerce=True),
        _schema("pd", [_col("a", "str")], strict=True),
    ], [
        _call(0, "pd", {"a": ["1", "2"]}),
        _call(1, "pd", {"a": [1, 2]}),
        _call(2, "pd", {"a": ["x", "y"], "b": [1, 2]}, lazy=True),
    ]))
    return W


QUICK = 15


def _tier_workloads(tier):
    W = fixed_workloads()
    return W[:QUICK] if tier == "quick" else W


def enum_single(tier):
    for w in _tier_workloads(tier):
        steps = _steps(w)
        n = len(steps)
        for i in range(n):
            for j in range(n):
                if i == j:
                    continue
                for p in range(1, steps[i]):
                    yield {"workload": w, "schedule": [[i, p], [j, INF]]}


def enum_double(tier):
    seed = int(os.environ.get("VERIF_SEED", "1") or 1)
    qs = (5, 40, 160) if tier == "quick" else (2, 7, 25, 80, 200)
    n_p = 16 if tier == "quick" else 90
    for w in _tier_workloads(tier):
        steps = _steps(w)
        n = len(steps)
        for i in range(n):
            for j in range(n):
                if i == j:
                    continue
                stride = max(1, (steps[i] - 1) // n_p)
                for p in range(1 + seed % stride, steps[i], stride):
                    for q in qs:
                        yield {"workload": w, "schedule": [[i, p], [j, q], [i, INF]]}


# ------------------------------------------------------------------ overlap: both threads inside the same function


def _overlap_workloads():
    gt0 = [["gt", 0]]
    return [
        # defaults filled into object / float data by two distinct schemas (whatever the filling touches process-wide)
        _wl("pd-distinct/defaults", [
            _schema("pd", [_col("a", "str", nullable=True, default="x"), _col("b", "float64", default=1.5, checks=[["gt", 0.0]])]),
            _schema("pd", [_col("a", "str", nullable=True, default="y"), _col("b", "float64", default=2.5)]),
        ], [
            _call(0, "pd", {"a": ["p", None], "b": [0.5, None]}),
            _call(1, "pd", {"a": [None, "q"], "b": [None, 2.0]}, lazy=True),
        ]),
        # object columns holding numbers: what a fill leaves behind depends on pandas' process-wide options
        _wl("pd-distinct/defaults-object", [
            _schema("pd", [_col("x", "object", nullable=True, default=0)]),
            _schema("pd", [_col("x", "object", nullable=True, default=0)]),
        ], [
            _obj_call(0, {"x": [None, 1, 2]}),
            _obj_call(1, {"x": [None, 3, 4]}),
        ]),
        _wl("pd-distinct/coerce+fail", [
            _schema("pd", [_col("a", coerce=True, checks=gt0)]),
            _schema("pd", [_col("a", coerce=True, checks=gt0)]),
        ], [
            _call(0, "pd", {"a": ["1", "2"]}),
            _call(1, "pd", {"a": ["3", "-4"]}),
        ]),
        # polars frames with different columns validated by different schemas (nothing but the documented global
        # config is shared: the outcome differences that config explains are attributed to the recorded finding)
        _wl("pl-distinct/different-columns", [
            _schema("pl", [_col("a", checks=gt0)]),
            _schema("pl", [_col("b", "str")]),
        ], [
            _call(0, "pl_df", {"a": [1, 2]}),
            _call(1, "pl_df", {"b": ["x", "y"]}),
        ]),
        # one shared dataframe-level check object with an option, under drop_invalid_rows (a window opened around the
        # check call on one thread crossed by the same window on the other)
        _wl("pd-shared-noop/drop+n_failure_cases", [
            _schema("pd", [_col("a")], checks=[["gt", 0, {"n_failure_cases": 1}]], drop=True),
        ], [
            _call(0, "pd", {"a": [1, -2, 3, -4]}, lazy=True),
            _call(0, "pd", {"a": [1, 2, -2, 3, -3]}, lazy=True),
        ]),
    ]


def _function_points(w, lines=False):
    """per thread: {function name: [yield-point counts at which the thread is inside that function (innermost pandera
    frame)]} from a traced sequential execution"""
    _reset_config()
    objs = work.Objects(w)
    n = len(w["calls"])
    r = sched.Sched([objs.call(i) for i in range(n)], [[0, INF]], keep_trace=True, lines=lines).run()
    _reset_config()
    if r.status != "ok":
        raise HarnessError(f"sequential traced execution of {w.get('name')} inconclusive: {r.why}")
    per = [dict() for _ in range(n)]
    inv = [dict() for _ in range(n)]  # function -> list of invocations, each the list of its points
    stacks = [[] for _ in range(n)]   # entries: [name, points-of-this-invocation]
    counts = [0] * n
    for tid, what in r.trace:
        counts[tid] += 1
        popped = None
        if what == "line":
            pass
        elif what.startswith("ret:"):
            if stacks[tid]:
                popped = stacks[tid].pop()
        else:
            rec = [what, []]
            stacks[tid].append(rec)
            inv[tid].setdefault(what, []).append(rec[1])
        top = popped if popped is not None else (stacks[tid][-1] if stacks[tid] else None)
        if top is not None:
            top[1].append(counts[tid])
            per[tid].setdefault(top[0], []).append(counts[tid])
    return (per, inv) if lines else per


def enum_overlap(tier):
    """two-preemption schedules [[i,p],[j,q],[i,INF]] with thread i parked inside function F at p and thread j parked
    inside the SAME function F at q: the interleavings in which a window opened by F on one thread is crossed by F on the
    other (process-wide switches toggled around a library call, module-level memos, caches)"""
    seed = int(os.environ.get("VERIF_SEED", "1") or 1)
    cap = 3 if tier == "quick" else 8
    for w in _overlap_workloads():
        per = _function_points(w)
        n = len(per)
        for i in range(n):
            for j in range(n):
                if i == j:
                    continue
                for fn in sorted(set(per[i]) & set(per[j])):
                    ps, qs = per[i][fn], per[j][fn]
                    if len(ps) > cap:
                        ps = ps[seed % 2::max(1, len(ps) // cap)][:cap]
                    if len(qs) > cap:
                        qs = qs[(seed // 2) % 2::max(1, len(qs) // cap)][:cap]
                    for p_ in ps:
                        for q_ in qs:
                            yield {"workload": w, "schedule": [[i, p_], [j, q_], [i, INF]], "overlap_fn": fn}
    # the same at source-line granularity for the short functions (a memo / switch that is written and read back within
    # one function body has no call boundary inside its window)
    small = 8 if tier == "quick" else 14

    def pick(invocations):
        # a function that is called many times: its first two and its last invocation
        return invocations if len(invocations) <= 3 else invocations[:2] + invocations[-1:]

    for w in _overlap_workloads():
        if tier == "quick" and not w["name"].startswith("pl-distinct"):
            continue  # (quick: the polars workload only; the pandas workloads at line granularity are thorough-tier)
        _per, inv = _function_points(w, lines=True)
        n = len(inv)
        for i in range(n):
            for j in range(n):
                if i == j:
                    continue
                for fn in sorted(set(inv[i]) & set(inv[j])):
                    for ps in pick(inv[i][fn]):
                        for qs in pick(inv[j][fn]):
                            if len(ps) > small or len(qs) > small:
                                continue
                            for p_ in ps:
                                for q_ in qs:
                                    yield {"workload": w, "schedule": [[i, p_], [j, q_], [i, INF]], "overlap_fn": fn,
                                           "lines": True}


# ------------------------------------------------------------------ cold process: first validations of a process


def _cold_workloads():
    gt0 = [["gt", 0]]
    return [
        _wl("cold/pd-distinct", [_schema("pd", [_col("a", checks=gt0)]), _schema("pd", [_col("a", "float64")])], [
            _call(0, "pd", {"a": [1, 2]}),
            _call(1, "pd", {"a": [0.5, 1.5]}),
        ]),
        _wl("cold/pd-shared", [_schema("pd", [_col("a", checks=gt0)])], [
            _call(0, "pd", {"a": [1, 2]}),
            _call(0, "pd", {"a": [-1, 2]}, lazy=True),
        ]),
    ]


def enum_cold(tier):
    """single-preemption schedules of the very first validate calls of a process: dense over the first yield points
    (backend registration, lazy imports), sparse afterwards"""
    seed = int(os.environ.get("VERIF_SEED", "1") or 1)
    dense, sparse = (36, 6) if tier == "quick" else (160, 40)
    for k, w in enumerate(_cold_workloads()):
        if tier == "quick" and k > 0:
            continue
        for i, j in ((0, 1), (1, 0)):
            ps = list(range(1, dense + 1)) + [dense + (seed % 7) + 1 + 37 * q for q in range(sparse)]
            for p in ps:
                yield {"workload": w, "schedule": [[i, p], [j, INF]], "cold": True}


def eval_cold(case):
    """every call of the first, concurrent validations of a fresh interpreter returns / raises what it does alone"""
    import subprocess
    import sys

    ev = Eval()
    w = case["workload"]
    ev.labels.append("cold:" + w.get("name", "?"))
    env = dict(os.environ)
    try:
        p = subprocess.run([sys.executable, "-W", "ignore", "-m", "harness.props._c07_cold"], input=json.dumps(case),
                           capture_output=True, text=True, timeout=120, env=env,
                           cwd=os.path.dirname(os.path.dirname(os.path.dirname(os.path.abspath(__file__)))))
    except subprocess.TimeoutExpired:
        ev.skipped = "inconclusive-timeout"
        return ev
    line = next((l for l in p.stdout.splitlines() if l.startswith("C07COLD ")), None)
    if line is None:
        raise HarnessError("cold driver produced no result: " + (p.stderr or p.stdout)[-800:])
    out = json.loads(line[len("C07COLD "):])
    if out["status"] != "ok":
        ev.skipped = "inconclusive-watchdog"
        return ev
    p_at = case["schedule"][0][1]
    reached = p_at < out["steps"][case["schedule"][0][0]] if out.get("steps") else True
    ev.labels.append("cold:preempted" if out.get("n_preemptions") else "cold:no-preemption (call shorter than p)")
    ev.nontrivial = bool(out.get("n_preemptions"))
    for i, (got, want) in enumerate(zip(out["results"], out["solo"])):
        if canon(got) != canon(want):
            ev.add("cold-outcome-differs:" + str(got.get("type") or got.get("k")),
                   {"call": i, "schedule": case["schedule"], "scheduled": got, "solo": want, "reached": reached})
    if out.get("cfg_changed"):
        ev.add("cold-config-changed", {"schedule": case["schedule"]})
    return ev


# ------------------------------------------------------------------ generated workloads

_OK = {"int64": _INT_OK, "float64": _FLT_OK, "str": _STR_OK}
# a cell that violates the first check of the column
_BAD_CELL = {"int64": -5, "float64": -5.5, "str": "bad!"}
_FIRST_CHECK = {"int64": ["gt", 0], "float64": ["gt", 0.0], "str": ["isin", ["x", "y", "zz"]]}
_EXTRA_CHECKS = {"int64": [["lt", 100], ["ne", 50], ["fn_gt", -1]], "float64": [["le", 99.5]], "str": [["str_length", 1, 4]]}
# representation that needs coercion to reach the dtype
_NEEDS_COERCE = {"int64": lambda v: [str(x) for x in v], "float64": lambda v: [int(x) for x in v],
                 "str": None}
_WRONG_DTYPE = {"int64": lambda v: ["q"] * len(v), "float64": lambda v: ["q"] * len(v), "str": lambda v: list(range(len(v)))}


@st.composite
def _gen_workload(draw):
    klass = draw(st.sampled_from([
        "pd-distinct", "pd-distinct", "pd-shared-noop", "pd-shared-noop", "pd-shared-noop", "pd-shared-noop-model",
        "pd-shared-override", "cfg-pl", "cfg-pl-shared", "cfg-mixed", "cfg-ctx",
    ]))
    n_calls = draw(st.sampled_from([2, 2, 2, 3]))
    cfg = klass.startswith("cfg")
    be = "pl" if klass in ("cfg-pl", "cfg-pl-shared") else "pd"
    ncols = draw(st.integers(1, 3))
    dts = [draw(st.sampled_from(["int64", "float64", "str"])) for _ in range(ncols)]
    names = ["a", "b", "c"][:ncols]

    def gen_schema(be, allow_component_coerce, model=False):
        cols = []
        for nme, dt in zip(names, dts):
            checks = [_FIRST_CHECK[dt]]
            if not model:
                extra = [k for k in _EXTRA_CHECKS[dt] if be == "pd" or k[0] not in ("fn_gt",)]
                checks += draw(st.lists(st.sampled_from(extra), max_size=1, unique_by=lambda k: k[0]))
            cols.append(_col(nme, dt, checks=checks,
                             coerce=allow_component_coerce and draw(st.booleans()),
                             unique=draw(st.booleans()) and not model))
        s = _schema(be, cols, coerce=draw(st.booleans()) if (allow_component_coerce or klass == "pd-shared-noop") else False,
                    strict=draw(st.sampled_from([False, False, True, "filter"])), ordered=draw(st.booleans()))
        if be == "pd" and not model and draw(st.booleans()):
            s["index"] = {"dt": "int64", "coerce": allow_component_coerce and draw(st.booleans()),
                          "checks": [["ge", 0]]}
        if model:
            s["model"] = True
        return s

    def gen_call(si, spec, form, max_faults):
        nrows = draw(st.integers(1, 3))
        cols = {c["n"]: list(_OK[c["dt"]][:nrows]) for c in spec["cols"]}
        index = list(range(nrows)) if spec.get("index") else None
        faults = draw(st.lists(st.sampled_from(["check", "wrong-dtype", "needs-coerce", "missing", "extra", "dup",
                                                "bad-index"]), max_size=max_faults, unique=True))
        # one fault per column at most, applied in column order
        targets = list(spec["cols"])
        for f in faults:
            if f == "extra":
                cols["zz"] = [1] * nrows
                continue
            if f == "bad-index":
                if index is not None:
                    index[-1] = -7
                continue
            if not targets:
                break
            c = targets.pop(0)
            v = cols[c["n"]]
            if f == "check":
                v[-1] = _BAD_CELL[c["dt"]]
            elif f == "wrong-dtype":
                if spec["be"] == "pl" and (c.get("coerce") or spec.get("coerce")):
                    # a failing polars coercion under SCHEMA_ONLY surfaces only at collect() (recorded under C06);
                    # with a depth that changes mid-call the outcome is not a mix of single-depth outcomes
                    continue
                cols[c["n"]] = _WRONG_DTYPE[c["dt"]](v)
            elif f == "needs-coerce" and _NEEDS_COERCE[c["dt"]]:
                cols[c["n"]] = _NEEDS_COERCE[c["dt"]](v)
            elif f == "missing" and len(cols) > 1:
                del cols[c["n"]]
            elif f == "dup" and nrows >= 2:
                v[-1] = v[0]
        call = _call(si, form, cols, lazy=draw(st.booleans()))
        if index is not None:
            call["data"]["index"] = index
        if form == "pd" and draw(st.integers(0, 5)) == 0:
            call["head"] = 1
        return call

    schemas, calls = [], []
    if klass == "pd-distinct":
        for k in range(n_calls):
            schemas.append(gen_schema("pd", True))
            calls.append(gen_call(k, schemas[k], "pd", 2))
    elif klass in ("pd-shared-noop", "pd-shared-noop-model", "pd-shared-override"):
        model = klass.endswith("model")
        schemas.append(gen_schema("pd", klass == "pd-shared-override", model=model))
        if klass == "pd-shared-override" and not work.coerce_components(schemas[0]):
            schemas[0]["cols"][0]["coerce"] = True
        for k in range(n_calls):
            calls.append(gen_call(0, schemas[0], "pd", 1 if klass == "pd-shared-override" else 2))
    elif klass in ("cfg-pl", "cfg-pl-shared"):
        shared = klass == "cfg-pl-shared"
        for k in range(n_calls):
            if not shared or k == 0:
                schemas.append(gen_schema("pl", True))
            si = 0 if shared else k
            calls.append(gen_call(si, schemas[si], draw(st.sampled_from(["pl_df", "pl_lf"])), 1))
    elif klass == "cfg-mixed":
        for k in range(n_calls):
            b = "pl" if k == 0 else draw(st.sampled_from(["pd", "pl"]))
            schemas.append(gen_schema(b, b == "pl"))
            form = "pd" if b == "pd" else draw(st.sampled_from(["pl_df", "pl_lf"]))
            calls.append(gen_call(k, schemas[k], form, 1))
    else:  # cfg-ctx: pandas only, one thread runs inside a user config_context
        for k in range(n_calls):
            schemas.append(gen_schema("pd", True))
            calls.append(gen_call(k, schemas[k], "pd", 1))
        calls[0]["ctx"] = draw(st.sampled_from(list(DEPTHS)))
    return _wl("gen/" + klass, schemas, calls)


def strat_multi():
    # every segment switches to ANOTHER thread (offset d); run lengths: short runs keep a thread inside a window,
    # medium ones reach the windows of a call (they lie between yield point ~60 and ~450)
    seg = st.tuples(st.integers(1, 2), st.one_of(st.integers(1, 30), st.integers(30, 260), st.integers(1, 600)))

    def fix(w, first, segs):
        n = len(w["calls"])
        t = first % n
        out = []
        for d, k in segs:
            out.append([t, k])
            t = (t + 1 + (d - 1) % (n - 1)) % n if n > 1 else t
        return {"workload": w, "schedule": out}

    return st.builds(fix, _gen_workload(), st.integers(0, 2), st.lists(seg, min_size=2, max_size=6))


FAMILIES = [
    Family("single", evaluate, enumerate=enum_single, shards_quick=10, shards_thorough=16, exhaustive=True,
           required_labels=["expect=independent", "expect=known-race-class", "preempted-in-window=pd-component-override",
                            "preempted-in-window=config-context"]),
    Family("double", evaluate, enumerate=enum_double, shards_quick=2, shards_thorough=12,
           required_labels=["preempted-in-window=config-context"]),
    Family("overlap", evaluate, enumerate=enum_overlap, shards_quick=14, shards_thorough=16),
    Family("cold", eval_cold, enumerate=enum_cold, shards_quick=16, shards_thorough=16),
    Family("multi", evaluate, strategy=strat_multi, n_quick=220, n_thorough=1000, shards_quick=4, shards_thorough=16,
           required_labels=["expect=independent", "class=pd-shared-noop", "class=pd-distinct"]),
]


def selftest():
    """Calibration of the scheduler itself (not of pandera): the tracer must see pandera frames of the imported
    package, the sequential schedule must reproduce the solo outcomes, and the windows must be observed."""
    w = fixed_workloads()[0]
    steps = _steps(w)
    if min(steps) < 40:
        raise HarnessError(f"scheduler sees too few pandera yield points {steps}: source prefix {sched.pandera_dir()!r} wrong?")
    ev = evaluate({"workload": w, "schedule": [[0, INF]]})
    if ev.skipped:
        raise HarnessError(f"sequential execution not scorable: {ev.skipped}")
    ev2 = evaluate({"workload": w, "schedule": [[0, steps[0] // 2], [1, INF]]})
    if ev2.skipped or not any(l.startswith("preemptions=1") for l in ev2.labels):
        raise HarnessError(f"a mid-call preemption was not carried out: {ev2.labels} {ev2.skipped}")
