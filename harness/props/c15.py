"""C15 - schema transformations mirror the corresponding dataframe transformations.

A case is a *program*: a schema spec S0 (every column/index attribute, schema-level options, index none /
Index / 2-3 level MultiIndex), a conforming table D0 (derived from the spec), an optional *breaker* (one
violated constraint -> D0_bad) and 1..5 transformation requests (valid and invalid).  For every step

  * pandera's op(S) is compared attribute by attribute, then by whole structural fingerprint and ``==``,
    with the schema built directly by the constructors from the *expected* spec (model in _c15_model.py,
    written from the docstrings): untouched properties kept, touched ones updated, moved ones carried over
    where the target component has the attribute; inverse pairs therefore come back to the original schema;
  * op(S) must accept op(D) (paired pandas/polars operation) and keep rejecting op(D_bad) while the broken
    component survives untouched;
  * invalid requests must raise SchemaInitError/ValueError;
  * the receiver's fingerprint is unchanged and the result shares no mutable component with it.
"""
from __future__ import annotations

import copy
import json

from hypothesis import strategies as st

from .. import fp, known
from ..core import Eval, Family, HarnessError
from . import _c15_model as M

PROPERTY = "C15"
LEVEL = "exploration"
RULE = (
    "Hypothesis-generated programs: schema spec (1-4 columns over int/float/str/datetime/no dtype, each attribute "
    "of Column/Index non-default with p~0.15-0.5, schema-level strict/ordered/unique/coerce/..., index none/Index/"
    "MultiIndex(2-3)), 1-4 conforming rows, optional single-constraint breaker, 1-5 requests drawn against the "
    "simulated current schema from add/remove/select/rename/update_column(s)/set_index/reset_index with ~12% "
    "invalid requests and ~30% immediately followed by their inverse. 35% of programs use the 'plain' profile that "
    "avoids the features of the recorded known findings. Non-trivial: >=2 valid requests executed, or a touched/"
    "moved component carrying >=3 non-default attributes. Family component_update_checks: one generated Column/Index "
    "(pandas) or Column (polars) + a new check list through update_checks/set_checks (non-trivial: >=3 non-default "
    "attributes). Distinct = hash of the canonical JSON case."
)
ASSUMPTIONS = [
    "expected result of each request = constructors applied to the model's spec (harness/props/_c15_model.py, from the "
    "method docstrings): this trusts DataFrameSchema/Column/Index/MultiIndex constructors and fingerprint()",
    "verdicts come from pandera's own validate(lazy=True) (accept = returned with all rows); validation semantics "
    "themselves are C01's subject",
    "column position of reset_index levels follows the docstring example (appended), so the paired frame operation "
    "moves them to the end; relative order of >=2 explicitly listed levels is not compared",
    "outside the domain (skipped, labelled): set_index(append=True) without schema index, "
    "reset onto an existing column name, duplicate keys, removal of a member of schema-level unique (verdict only)",
]

POOL = ["ca", "cb", "", "cd", "ce"]  # ("" is a legal label: falsy is not the same as absent)
NEWPOOL = ["na", "nb", "nc", "nd"]
IDXPOOL = ["ia", "ib", "ic"]


# ================================================================== generator


@st.composite
def _component(draw, name, cid, p, backend, column=True, plain=False):
    dts = ["int", "float", "str", "dt", "none"] if backend == "pandas" else ["int", "float", "str"]
    dtype = draw(st.sampled_from(dts))
    flag = lambda q=p: draw(st.integers(0, 999)) < q * 1000  # noqa: E731
    vocab = M.checks_for(dtype, backend)
    checks = draw(st.lists(st.sampled_from(vocab), max_size=2, unique=True)) if flag(0.6) else []
    c = {
        "id": cid, "name": name, "dtype": dtype, "checks": checks,
        "parsers": (draw(st.lists(st.sampled_from(M.PARSERS), min_size=1, max_size=2, unique=True))
                    if (not plain and backend == "pandas" and flag()) else []),
        "nullable": flag(0.4), "unique": flag(0.3),
        "report_duplicates": (draw(st.sampled_from(["exclude_first", "exclude_last"]))
                              if (not plain and backend == "pandas" and flag()) else "all"),
        "coerce": flag(0.25),
        # (set-but-falsy values - "", 0, {} - are values like any other: "not set" is None / absent, not falsy)
        "title": draw(st.sampled_from(["T-" + name] * 3 + [""])) if (not plain and flag()) else None,
        "description": draw(st.sampled_from(["D-" + name] * 3 + [""])) if (not plain and flag()) else None,
        "default": draw(st.sampled_from([True, True, "falsy"])) if (not plain and flag()) else False,
        "metadata": draw(st.sampled_from([{"k": name, "n": [1, 2]}] * 3 + [{}])) if (not plain and flag()) else None,
        "drop_invalid_rows": (not plain) and flag(),
        "raws": draw(st.lists(st.integers(0, 20), min_size=4, max_size=4, unique=True)),
        "null_at": draw(st.one_of(st.none(), st.integers(0, 3))),
    }
    if column:
        c["required"] = not flag(0.2)
        c["regex"] = flag(0.15) and name != ""  # (the empty pattern would match every column)
    return c


def _nondefault(comp):
    return sum(1 for k, d in M.COL_DEFAULTS.items() if k in comp and comp[k] != d)


@st.composite
def programs(draw, backend="pandas"):
    plain = draw(st.integers(0, 99)) < 35
    p = draw(st.sampled_from([0.15, 0.5]))
    nrows = draw(st.integers(1, 4))
    ncols = draw(st.integers(1, 4))
    ids = iter(range(1000))
    # (polars itself ignores a "" key in LazyFrame.cast({"": dtype}): a column labelled "" is never coerced there,
    # whatever pandera asks for - the empty label is only used on pandas)
    pool = POOL if backend == "pandas" else [n if n else "cc" for n in POOL]
    cols = [draw(_component(pool[i], next(ids), p, backend, True, plain)) for i in range(ncols)]
    index = None
    if backend == "pandas":
        nlev = draw(st.sampled_from([0, 0, 1, 1, 2, 3] if not plain else [0, 1, 2]))
        levels = [draw(_component(IDXPOOL[i], next(ids), p, backend, False, plain)) for i in range(nlev)]
        if nlev == 1:
            index = levels[0]
        elif nlev >= 2:
            rich = (not plain) and draw(st.integers(0, 99)) < 30
            index = {"levels": levels, "coerce": rich and draw(st.booleans()), "strict": rich and draw(st.booleans()),
                     "name": "mi" if rich and draw(st.booleans()) else None,
                     "ordered": not (rich and draw(st.booleans())), "unique": None}
    flag = lambda q: draw(st.integers(0, 999)) < q * 1000  # noqa: E731
    unique = None
    if not plain and ncols >= 2 and flag(0.35):
        k = draw(st.integers(2, min(3, ncols)))
        unique = draw(st.permutations([c["name"] for c in cols]))[:k]
    spec = {
        "columns": cols, "index": index,
        "checks": ["frame_ok"] if (backend == "pandas" and flag(0.3)) else [],
        "strict": draw(st.sampled_from([False, False, True, "filter"])),
        "ordered": flag(0.3), "unique": unique,
        "coerce": flag(0.2), "name": "S" if flag(0.3) else None, "title": "ST" if flag(0.3) else None,
        "description": "SD" if flag(0.3) else None, "metadata": {"s": 1} if flag(0.3) else None,
        "drop_invalid_rows": flag(0.2),
        "report_duplicates": draw(st.sampled_from(["all", "all", "exclude_first"])) if backend == "pandas" else "all",
        "unique_column_names": backend == "pandas" and flag(0.2), "add_missing_columns": flag(0.2),
    }

    # ---- requests, drawn against the simulated schema
    nops = draw(st.sampled_from([1, 2, 2, 3, 3, 4, 5]))
    ops = []
    cur = spec
    kinds = ["add_columns", "remove_columns", "select_columns", "rename_columns", "update_column", "update_columns"]
    if backend == "pandas":
        kinds += ["set_index", "set_index", "reset_index", "reset_index"]
    pending_inverse = None
    while len(ops) < nops:
        names = [c["name"] for c in cur["columns"]]
        lnames = [l["name"] for l in M.index_levels(cur)]
        uniq = list(cur["unique"] or [])
        if pending_inverse is not None:
            op, pending_inverse = pending_inverse, None
        else:
            kind = draw(st.sampled_from(kinds))
            invalid = flag(0.12)
            avoid_unique = plain or flag(0.85)
            free = [n for n in NEWPOOL + POOL if n not in names and n not in lnames and (n or backend == "pandas")]
            op = None
            if kind == "add_columns":
                k = draw(st.integers(1, 2))
                tgt = free[:k]
                if names and flag(0.1):
                    cand = [n for n in names if n not in uniq]
                    if cand:
                        tgt = [draw(st.sampled_from(cand))]
                if not tgt:
                    continue
                op = {"op": kind, "cols": [draw(_component(n, next(ids), p, backend, True, plain)) for n in tgt]}
            elif kind in ("remove_columns", "select_columns"):
                if invalid:
                    op = {"op": kind, "cols": names[:1] + ["zz"]}
                else:
                    pool = [n for n in names if not (avoid_unique and n in uniq)]
                    if kind == "remove_columns":
                        if not pool:
                            continue
                        sel = draw(st.lists(st.sampled_from(pool), min_size=1, max_size=2, unique=True))
                    else:
                        mode = draw(st.sampled_from(["all", "perm", "subset"]))
                        if mode == "all":
                            sel = list(names)
                        elif mode == "perm":
                            sel = list(draw(st.permutations(names)))
                        else:
                            sel = [n for n in draw(st.permutations(names)) if flag(0.6) or (avoid_unique and n in uniq)]
                            if avoid_unique and uniq:
                                sel = [n for n in sel]
                    op = {"op": kind, "cols": sel}
            elif kind == "rename_columns":
                if not names:
                    continue
                if invalid:
                    if len(names) >= 2 and flag(0.5):
                        op = {"op": kind, "map": {names[0]: names[1]}}
                        if len(names) % 2 == 1:
                            # the target also maps to itself (e.g. {c: c.lower() for c in columns}): the self-mapping is a
                            # no-op, the collision stays.  Decided from the case, no extra draw: other cases keep theirs.
                            op["map"][names[1]] = names[1]
                    else:
                        op = {"op": kind, "map": {"zz": "zy"}}
                else:
                    pool = [n for n in names if not (plain and n in uniq)]
                    if not pool or not free:
                        continue
                    src = draw(st.lists(st.sampled_from(pool), min_size=1, max_size=min(2, len(free)), unique=True))
                    m = {s_: free[i] for i, s_ in enumerate(src)}
                    if flag(0.15):
                        m[names[-1]] = names[-1] if names[-1] not in m else m[names[-1]]  # self-mapping is a no-op
                    op = {"op": kind, "map": m}
            elif kind in ("update_column", "update_columns"):
                if not names:
                    continue

                def one_update(n):
                    c = next(c for c in cur["columns"] if c["name"] == n)
                    attrs = ["title", "description", "metadata", "default", "nullable", "unique", "coerce", "required",
                             "regex", "drop_invalid_rows", "checks"]
                    if backend == "pandas":
                        attrs += ["report_duplicates", "parsers"]
                    if c["dtype"] in M.NUM:
                        attrs.append("dtype")
                    a = draw(st.sampled_from(attrs))
                    if a in ("title", "description"):
                        v = draw(st.sampled_from(["U-" + a, None]))
                    elif a == "metadata":
                        v = draw(st.sampled_from([{"m": 2}, None]))
                    elif a == "report_duplicates":
                        v = draw(st.sampled_from(["all", "exclude_first", "exclude_last"]))
                    elif a == "checks":
                        v = draw(st.lists(st.sampled_from(M.checks_for(c["dtype"], backend)), max_size=2, unique=True))
                    elif a == "parsers":
                        v = draw(st.lists(st.sampled_from(M.PARSERS), max_size=2, unique=True))
                    elif a == "dtype":
                        opts = [d for d in (["int", "float", "none"] if backend == "pandas" else ["int", "float"])
                                if d != c["dtype"]]
                        v = draw(st.sampled_from(opts))
                    else:
                        v = not c.get(a, M.COL_DEFAULTS[a]) if flag(0.8) else c.get(a, M.COL_DEFAULTS[a])
                    return a, v

                if kind == "update_column":
                    if invalid:
                        op = ({"op": kind, "col": "zz", "attr": "title", "value": "x"} if flag(0.5) else
                              {"op": kind, "col": names[0], "attr": "name", "value": "zy"})
                    else:
                        n = draw(st.sampled_from(names))
                        a, v = one_update(n)
                        op = {"op": kind, "col": n, "attr": a, "value": v}
                else:
                    if invalid:
                        op = ({"op": kind, "updates": {"zz": {"title": "x"}}} if flag(0.5) else
                              {"op": kind, "updates": {names[0]: {"name": "zy"}}})
                    else:
                        ns_ = draw(st.lists(st.sampled_from(names), min_size=1, max_size=2, unique=True))
                        ups = {}
                        for n in ns_:
                            a, v = one_update(n)
                            ups[n] = {a: v}
                        op = {"op": kind, "updates": ups}
            elif kind == "set_index":
                if invalid:
                    op = {"op": kind, "keys": ["zz"], "drop": True, "append": False}
                else:
                    pool = [n for n in names if n not in lnames and not (avoid_unique and n in uniq)]
                    if not pool:
                        continue
                    keys = draw(st.lists(st.sampled_from(pool), min_size=1, max_size=2, unique=True))
                    append = bool(lnames) and len(lnames) + len(keys) <= 4 and flag(0.5)
                    op = {"op": kind, "keys": keys, "drop": flag(0.7), "append": append}
            elif kind == "reset_index":
                if invalid or not lnames:
                    if not lnames:
                        if not flag(0.3):
                            continue
                        op = {"op": kind, "level": None, "drop": False}
                    else:
                        op = {"op": kind, "level": [lnames[0], "zz"] if len(lnames) > 1 else ["zz"], "drop": False}
                else:
                    drop = flag(0.25)
                    ok = [l for l in lnames if drop or l not in names]
                    if len(ok) != len(lnames):
                        if not ok:
                            continue
                        level = [draw(st.sampled_from(ok))]
                    elif flag(0.08):
                        level = []
                    elif flag(0.5):
                        level = None
                    else:
                        level = draw(st.lists(st.sampled_from(lnames), min_size=1, max_size=2, unique=True))
                    op = {"op": kind, "level": level, "drop": drop}
            if op is None:
                continue
        try:
            new, info = M.apply_op(cur, op, backend)
        except M.Invalid:
            ops.append(op)
            continue
        except M.Unspecified:
            ops.append(op)
            break
        if any(c.get("regex") and c["name"] == "" for c in new["columns"]):
            pending_inverse = None
            continue  # (an empty regular expression selects every column: not a meaningful schema)
        # inverse request straight after (inverse laws)
        if flag(0.3):
            k = op["op"]
            if k == "add_columns" and all(c["name"] not in [x["name"] for x in cur["columns"]] for c in op["cols"]):
                pending_inverse = {"op": "remove_columns", "cols": [c["name"] for c in op["cols"]]}
            elif k == "rename_columns":
                pending_inverse = {"op": "rename_columns", "map": {v: k_ for k_, v in op["map"].items() if k_ != v}}
            elif k == "select_columns" and sorted(op["cols"]) == sorted(c["name"] for c in cur["columns"]):
                pending_inverse = {"op": "select_columns", "cols": [c["name"] for c in cur["columns"]]}
            elif k == "set_index" and op["drop"] and not op["append"] and cur["index"] is None:
                pending_inverse = {"op": "reset_index", "level": None, "drop": False}
            elif k == "set_index" and op["drop"] and op["append"]:
                pending_inverse = {"op": "reset_index", "level": list(op["keys"])[:1] if len(op["keys"]) == 1
                                   else None, "drop": False}
            elif k == "reset_index" and not op["drop"] and op["level"] is None:
                pending_inverse = {"op": "set_index", "keys": list(info["moved"]), "drop": True, "append": False}
            if pending_inverse and not pending_inverse.get("map", True):
                pending_inverse = None
        ops.append(op)
        cur = new

    comps = M.components(spec)
    breaker = None
    if flag(0.6):
        bk = draw(st.sampled_from(["check", "check", "dup", "null", "dtype", "joint_dup"]))
        breaker = {"kind": bk, "target": draw(st.sampled_from(comps))["id"]}
    return {"backend": backend, "profile": "plain" if plain else "full", "nrows": nrows, "schema": spec, "ops": ops,
            "breaker": breaker}


# =================================================================== oracle


def _is_schema(x, backend):
    try:
        if backend == "polars":
            import pandera.polars as pap

            return isinstance(x, pap.DataFrameSchema)
        import pandera as pa

        return isinstance(x, pa.DataFrameSchema)
    except Exception:
        return False


def _attr_fp(obj, attr):
    try:
        return fp.fingerprint(getattr(obj, attr))
    except Exception as e:  # missing attribute on a malformed result
        return f"<{type(e).__name__}>"


def _cmp_attrs(out, where, obs, exp, attrs):
    for a in attrs:
        x, y = _attr_fp(obs, a), _attr_fp(exp, a)
        if x != y:
            out.append((f"{where}.{a}", {"expected": fp._short(y), "observed": fp._short(x)}))


def compare(obs, exp, info, backend):
    """attribute-level differences between pandera's result and the expected schema: [(path, detail)]"""
    out = []
    try:
        okeys, ekeys = list(obs.columns.keys()), list(exp.columns.keys())
    except Exception as e:
        return [("result-malformed", {"error": f"{type(e).__name__}: {e}"[:200]})]
    if okeys != ekeys:
        what = "columns-order" if sorted(map(repr, okeys)) == sorted(map(repr, ekeys)) else "columns-keys"
        out.append((what, {"expected": ekeys, "observed": okeys}))
    for k in ekeys:
        if k not in obs.columns:
            continue
        role = ("added" if k in info["added"] else "touched" if k in info["touched"] else
                "moved" if (k in info["moved"] and info.get("op") == "reset_index") else "untouched")
        _cmp_attrs(out, f"{role}-column", obs.columns[k], exp.columns[k], M.COL_ATTRS)
    _cmp_attrs(out, "schema", obs, exp, [a for a in M.SCHEMA_ATTRS])
    if backend != "pandas":
        return out
    oi, ei = getattr(obs, "index", "<missing>"), exp.index
    if type(oi) is not type(ei):
        out.append(("index.kind", {"expected": type(ei).__name__, "observed": type(oi).__name__}))
        return out
    if ei is None:
        return out
    import pandera as pa

    moved = info["moved"] if info.get("op") == "set_index" else []
    if isinstance(ei, pa.MultiIndex):
        _cmp_attrs(out, "mi", oi, ei, ["_coerce", "strict", "name", "ordered", "unique"])
        try:
            on, en = [i.name for i in oi.indexes], [i.name for i in ei.indexes]
            ock, eck = list(oi.columns.keys()), list(ei.columns.keys())
        except Exception as e:
            out.append(("mi.malformed", {"error": f"{type(e).__name__}: {e}"[:200]}))
            return out
        if on != en:
            out.append(("mi.indexes-names", {"expected": en, "observed": on}))
        if ock != eck:
            out.append(("mi.columns-keys", {"expected": eck, "observed": ock}))
        for e_ix in ei.indexes:
            o_ix = next((i for i in oi.indexes if i.name == e_ix.name), None)
            if o_ix is not None:
                role = "moved" if e_ix.name in moved else "kept"
                _cmp_attrs(out, f"{role}-mi-level", o_ix, e_ix, M.IDX_ATTRS)
        for k in eck:
            if k in oi.columns:
                role = "moved" if k in moved else "kept"
                _cmp_attrs(out, f"{role}-mi-column", oi.columns[k], ei.columns[k], M.COL_ATTRS)
    else:
        role = "moved" if ei.name in moved else "kept"
        _cmp_attrs(out, f"{role}-index", oi, ei, M.IDX_ATTRS)
    return out


def _mutable_ids(schema, backend):
    """ids of the mutable containers/components reachable from a schema (aliasing probe)"""
    ids = {}

    def add(o, what):
        if o is not None and not isinstance(o, (str, int, float, bool, tuple)):
            ids[id(o)] = what

    def comp(c, what):
        add(c, what)
        for a in ("checks", "parsers", "metadata"):
            add(getattr(c, a, None), f"{what}.{a}")

    try:
        add(schema.columns, "columns")
        for k, c in schema.columns.items():
            comp(c, f"column[{k}]")
        add(getattr(schema, "checks", None), "schema.checks")
        add(getattr(schema, "metadata", None), "schema.metadata")
        add(getattr(schema, "_unique", None), "schema.unique")
        ix = getattr(schema, "index", None)
        if ix is not None:
            comp(ix, "index")
            if hasattr(ix, "indexes"):
                add(ix.indexes, "index.indexes")
                for i in ix.indexes:
                    comp(i, f"index.indexes[{i.name}]")
                add(ix.columns, "index.columns")
                for k, c in ix.columns.items():
                    comp(c, f"index.columns[{k}]")
    except Exception:
        pass
    return ids


def verdict(schema, df):
    # validate a deep copy: validation itself may leave traces on a schema (e.g. MultiIndex._coerce is rewritten by
    # run_schema_component_checks - C05's subject); the objects that continue through the program stay pristine
    try:
        schema = copy.deepcopy(schema)
    except Exception as e:  # noqa: BLE001
        return "internal:deepcopy-" + type(e).__name__, str(e)[:200]
    # whether a frame conforms does not depend on drop_invalid_rows (it only says what to do with invalid rows), and
    # that option has validation-path defects of its own (index errors are swallowed without dropping, Column
    # parsers + drop_invalid_rows crash): switch it off on the copy that is validated
    try:
        comps = [schema] + list(schema.columns.values())
        ix = getattr(schema, "index", None)
        if ix is not None:
            comps += [ix] + list(getattr(ix, "indexes", []))
        for c in comps:
            if getattr(c, "drop_invalid_rows", False) is not False:
                c.drop_invalid_rows = False
    except Exception as e:  # noqa: BLE001
        return "internal:malformed-schema-" + type(e).__name__, str(e)[:200]
    o = fp.outcome(lambda: schema.validate(df, lazy=True))
    if o["kind"] == "ok":
        try:
            n_out, n_in = len(o["value"]), len(df)
        except Exception:
            return "internal:validate-returned-" + type(o["value"]).__name__, None
        return ("accept", None) if n_out == n_in else ("reject", ["ROWS_DROPPED"])
    if o["kind"] in ("SchemaError", "SchemaErrors"):
        return "reject", o.get("reasons")
    if o["kind"] == "usage":
        return "usage:" + o["exc_type"], o.get("msg")
    return "internal:" + o["exc_type"], f"{o.get('where')}: {o.get('msg')}"


_MUTATED_ARGS = []  # filled by _call, read (and cleared) by evaluate: arguments of the caller a method wrote into
_ALIASED = []  # filled by _call, read (and cleared) by evaluate: components of a result that alias the caller's objects


def _call(S, op, cur, backend):
    k = op["op"]
    if k == "add_columns":
        given = {c["name"]: M.build_column(c, backend) for c in op["cols"]}
        for n, col in given.items():
            if getattr(col, "name", None) is None and n is not None:
                try:
                    col.name = n  # (a column that already carries the name of its key is the common way to write it)
                except Exception:  # noqa: BLE001
                    pass
        R = S.add_columns(given)
        # the result owns its components: editing the objects that were passed in afterwards must not reach it
        try:
            before = fp.fp_json(R)
            for col in given.values():
                col.nullable = not col.nullable
                col.name = "zz__edited_by_caller"
            if fp.fp_json(R) != before:
                _ALIASED.append(sorted(map(str, given)))
        except Exception:  # noqa: BLE001
            pass
        return R
    if k == "remove_columns":
        return S.remove_columns(list(op["cols"]))
    if k == "select_columns":
        return S.select_columns(list(op["cols"]))
    if k == "rename_columns":
        return S.rename_columns(dict(op["map"]))
    if k in ("update_column", "update_columns"):
        def kwargs(n, kw):
            base = next((c for c in cur["columns"] if c["name"] == n), None) or {"dtype": "int", "name": n}
            out = {}
            for a, v in kw.items():
                tmp = dict(base)
                tmp[a] = v
                out[a] = M.attr_value(tmp, a, backend) if a != "name" else v
            return out
        if k == "update_column":
            return S.update_column(op["col"], **kwargs(op["col"], {op["attr"]: op["value"]}))
        upd = {n: kwargs(n, kw) for n, kw in op["updates"].items()}
        shape = {n: sorted(d) for n, d in upd.items()}
        R = S.update_columns(upd)
        # the request belongs to the caller (who may reuse it for another schema): same columns, same properties
        if {n: sorted(d) for n, d in upd.items()} != shape:
            _MUTATED_ARGS.append({"before": shape, "after": {n: sorted(d) for n, d in upd.items()}})
        return R
    if k == "set_index":
        keys = list(op["keys"])
        R = S.set_index(keys, drop=op["drop"], append=op["append"])
        if keys != list(op["keys"]):
            _MUTATED_ARGS.append({"before": list(op["keys"]), "after": keys})
        return R
    if k == "reset_index":
        level = None if op["level"] is None else list(op["level"])
        R = S.reset_index(level=level, drop=op["drop"])
        if level is not None and level != list(op["level"]):
            _MUTATED_ARGS.append({"before": list(op["level"]), "after": level})
        return R
    raise HarnessError(f"unknown op {k}")


def _validatable(spec, ev):
    return True


def _survives(spec, breaker, members):
    if breaker["kind"] == "joint_dup":
        names = [c["name"] for c in spec["columns"]]
        ids = {c["id"] for c in spec["columns"]}
        return bool(spec["unique"]) and all(m in ids for m in members) and all(u in names for u in spec["unique"])
    return any(c["id"] == breaker["target"] for c in M.components(spec))


_WARM = set()


def _warmup(backend):
    """Register the validation backends before any schema is built.  DataFrameSchema.__init__ deep-copies its
    columns, a deep-copied built-in Check carries a *copy* of the process-wide Dispatcher, and Check.__eq__
    compares the byte code of every implementation registered in it: schemas built before and after the lazy
    backend registration would compare unequal for a reason that has nothing to do with transformations."""
    if backend in _WARM:
        return
    import pandas as pd
    import pandera as pa

    pa.DataFrameSchema({"a": pa.Column(int, pa.Check.ge(0))}, index=pa.Index(int)).validate(pd.DataFrame({"a": [1]}))
    if backend == "polars":
        import pandera.polars as pap
        import polars as pl

        pap.DataFrameSchema({"a": pap.Column(pl.Int64, pa.Check.ge(0))}).validate(pl.DataFrame({"a": [1]}))
    _WARM.add(backend)


def evaluate(case):
    import pandera.errors as pe

    ev = Eval()
    backend = case.get("backend", "pandas")
    _warmup(backend)
    nrows = case["nrows"]
    spec = copy.deepcopy(case["schema"])
    ev.labels += [f"backend={backend}", "profile=" + case.get("profile", "?")]
    ix = spec["index"]
    ev.labels.append("index=" + ("none" if ix is None else f"multi{len(ix['levels'])}" if "levels" in ix else "single"))

    S = M.build_schema(spec, backend)
    D = M.build_frame(spec, nrows, backend)
    verdicts_on = _validatable(spec, ev)
    v0, why = verdict(S, D) if verdicts_on else ("accept", None)
    if v0 != "accept":
        # the conforming table of the generator is rejected by the untransformed schema: not a C15 matter
        raise HarnessError(f"generator: base frame not accepted ({v0} {why}) for {json.dumps(case)[:1500]}")

    breaker, Dbad, members = case.get("breaker"), None, set()
    if breaker and verdicts_on:
        ov = M.break_cells(spec, nrows, breaker)
        if ov:
            Dbad = M.build_frame(spec, nrows, backend, override=ov)
            vb, _ = verdict(S, Dbad)
            if vb != "reject":
                Dbad = None  # e.g. coercion repairs the dtype break, or known crash of drop_invalid_rows: not tracked
            else:
                members = set(ov)
                ev.labels.append("converse=" + breaker["kind"])

    executed, rich_touch = 0, False
    history = [(M_canon(spec), fp.fp_json(S), S)]
    for step, op in enumerate(case["ops"]):
        k = op["op"]
        try:
            new_spec, info = M.apply_op(spec, op, backend)
            status = "valid"
        except M.Invalid as e:
            status, reason = "invalid", str(e)
        except M.Unspecified as e:
            ev.labels.append("unspecified-stop")
            break
        before = fp.fp_json(S)
        try:
            R = _call(S, op, spec, backend)
            exc = None
        except HarnessError:
            raise
        except Exception as e:  # noqa: BLE001
            R, exc = None, e
        if fp.fp_json(S) != before:
            ev.add(f"receiver-mutated:{k}", {"step": step, "op": op,
                                             "diff": fp.fp_diff(json.loads(before), json.loads(fp.fp_json(S)))})
            S = M.build_schema(spec, backend)

        if status == "invalid":
            ev.labels.append(f"invalid={k}:{reason}")
            if exc is None:
                ev.add(f"invalid-request-accepted:{k}:{reason}", {"step": step, "op": op})
            elif not isinstance(exc, (pe.SchemaInitError, ValueError)):
                ev.add(f"invalid-request-wrong-exception:{k}:{reason}",
                       {"step": step, "op": op, "type": type(exc).__name__, "msg": str(exc)[:200]})
            continue

        ev.labels.append(f"op={k}")
        executed += 1
        info["op"] = k
        if _ALIASED:
            ev.add(f"result-aliases-callers-objects:{k}", {"step": step, "op": op, "columns": _ALIASED[-1]})
            del _ALIASED[:]
        if _MUTATED_ARGS:
            ev.add(f"method-modified-its-argument:{k}", {"step": step, "op": op, **_MUTATED_ARGS[-1]})
            del _MUTATED_ARGS[:]
        for n in info["touched"] + info["moved"]:
            c = next((c for c in M.components(new_spec) if c["name"] == n), None)
            if c is not None and _nondefault(c) >= 3:
                rich_touch = True
        clean = False
        if exc is not None:
            ev.add(f"valid-request-raised:{k}", {"step": step, "op": op, "type": type(exc).__name__,
                                                 "msg": str(exc)[:300]})
        elif not _is_schema(R, backend):
            ev.add(f"result-not-a-schema:{k}", {"step": step, "op": op, "type": type(R).__name__})
            R = None
        else:
            exp_spec = new_spec
            if info.get("moved_order_free"):
                # relative order of >=2 explicitly listed levels is not specified: follow pandera's
                try:
                    okeys = [x for x in R.columns.keys() if x in info["moved"]]
                    if sorted(okeys) == sorted(info["moved"]):
                        exp_spec = copy.deepcopy(new_spec)
                        fixed = [c for c in exp_spec["columns"] if c["name"] not in info["moved"]]
                        exp_spec["columns"] = fixed + [next(c for c in exp_spec["columns"] if c["name"] == n)
                                                       for n in okeys]
                        new_spec = exp_spec
                except Exception:
                    pass
            E = M.build_schema(exp_spec, backend)
            diffs = compare(R, E, info, backend)
            if info["unique_unspecified"]:
                diffs = [d for d in diffs if d[0] != "schema.unique"]
            for path, detail in diffs:
                ev.add(f"{k}:{path}", {"step": step, "op": op, **detail})
            if not diffs:
                fo, fe = fp.fp_json(R), fp.fp_json(E)
                if info["unique_unspecified"]:
                    clean = True
                elif fo != fe:
                    ev.add(f"{k}:fingerprint-differs", {"step": step, "op": op,
                                                        "diff": fp.fp_diff(json.loads(fe), json.loads(fo))})
                else:
                    clean = True
                    try:
                        eq = (R == E)
                    except Exception as e:  # noqa: BLE001
                        eq = f"{type(e).__name__}"
                    if eq is not True:
                        ev.add(f"{k}:eq-false-on-structurally-equal-schemas", {"step": step, "op": op, "eq": repr(eq)})
            shared = set(_mutable_ids(S, backend)) & set(_mutable_ids(R, backend))
            if shared:
                what = sorted(_mutable_ids(S, backend)[i] for i in shared)[:6]
                ev.add(f"{k}:result-aliases-receiver", {"step": step, "op": op, "shared": what})

        # ---- verdicts on the paired frames
        if info["unique_unspecified"] and verdicts_on:
            verdicts_on = False
            ev.labels.append("unique-member-removed")
        if verdicts_on:
            verdicts_on = _validatable(new_spec, ev)
        if verdicts_on:
            try:
                D = M.frame_op(D, op, new_spec, nrows, backend)
            except Exception as e:  # pandas refused the mirrored operation: outside the domain
                ev.labels.append("frame-op-failed")
                verdicts_on = False
            if verdicts_on and Dbad is not None:
                touched_ids = set()
                if k in ("update_column", "update_columns", "add_columns"):
                    tn = info["touched"] + info["added"]
                    touched_ids = {c["id"] for c in spec["columns"] if c["name"] in tn}
                moved_ids = {c["id"] for c in M.components(new_spec) if c["name"] in info["moved"]}
                if touched_ids & members or not _survives(new_spec, breaker, members):
                    Dbad = None
                elif breaker["kind"] == "dtype" and moved_ids & members:
                    # the container the component moves into may coerce (MultiIndex(coerce=True) coerces every
                    # level): a wrong physical dtype is not a constraint that has to survive the move
                    Dbad = None
                else:
                    try:
                        Dbad = M.frame_op(Dbad, op, new_spec, nrows, backend)
                    except Exception:
                        Dbad = None
        if verdicts_on and R is not None:
            E_v = M.build_schema(new_spec, backend)

            def unrelated(outcome, frame):
                # a crash inside validate that the constructor-built expected schema shows as well is a
                # validation-path defect (error formatting etc.), not an effect of the transformation
                if outcome in ("accept", "reject"):
                    return False
                if verdict(E_v, frame)[0] == outcome:
                    ev.labels.append("validate-crash-unrelated")
                    return True
                return False

            v, why = verdict(R, D)
            if v == "reject":
                ev.add(f"{k}:accepted-frame-rejected-after", {"step": step, "op": op, "reasons": why})
            elif v != "accept" and not unrelated(v, D):
                ev.add(f"{k}:validate-error-after", {"step": step, "op": op, "outcome": v, "why": why})
            if Dbad is not None:
                ev.labels.append("converse-tracked")
                vb, whyb = verdict(R, Dbad)
                if vb == "accept":
                    ev.add(f"{k}:rejected-frame-accepted-after", {"step": step, "op": op, "breaker": breaker})
                elif vb != "reject" and not unrelated(vb, Dbad):
                    ev.add(f"{k}:validate-error-after(bad-frame)", {"step": step, "op": op, "outcome": vb, "why": whyb})

        # ---- next state: pandera's own result when it is exactly the expected schema, else resync to the model
        spec = new_spec
        if clean:
            S = R
        else:
            S = M.build_schema(spec, backend)
            ev.labels.append("resync")
        if verdicts_on:
            vm, whym = verdict(S, D) if not clean else ("accept", None)
            if vm != "accept":
                raise HarnessError(f"model schema rejects the mirrored frame after {op}: {vm} {whym}; "
                                   f"case={json.dumps(case)[:1500]}")
        cs = M_canon(spec)
        fpj = fp.fp_json(S)
        for (c0, f0, s0) in history:
            if c0 == cs:
                ev.labels.append("state-revisit")
                if f0 != fpj:
                    ev.add(f"{k}:inverse-law-fingerprint", {"step": step, "op": op,
                                                            "diff": fp.fp_diff(json.loads(f0), json.loads(fpj))})
                else:
                    try:
                        eq = (S == s0)
                    except Exception as e:  # noqa: BLE001
                        eq = type(e).__name__
                    if eq is not True:
                        ev.add(f"{k}:inverse-law-eq", {"step": step, "op": op, "eq": repr(eq)})
                break
        history.append((cs, fpj, S))

    ev.labels.append(f"len={executed}")
    ev.nontrivial = executed >= 2 or rich_touch
    return ev


def M_canon(spec):
    s = copy.deepcopy(spec)
    return json.dumps(s, sort_keys=True)


def strat_pandas():
    return programs("pandas")


def strat_polars():
    return programs("polars")




# ============================================================ known findings
# Each predicate matches the trigger (features of the program at the failing step) AND the symptom (kind + the
# direction of the difference).  Anything else about the same methods is still reported.

import re  # noqa: E402

_DEFAULT_FP = {"title": "null", "description": "null", "default": "null", "metadata": "null",
               "report_duplicates": "\"all\"", "parsers": "[]", "drop_invalid_rows": "false", "coerce": "false",
               "_coerce": "false", "strict": "false", "name": "null", "ordered": "true", "unique": "null"}


def _spec_at(case, step):
    """model state in front of request number `step`"""
    spec = copy.deepcopy(case["schema"])
    for op in case["ops"][:step]:
        try:
            spec, _ = M.apply_op(spec, op, case.get("backend", "pandas"))
        except M.Invalid:
            continue
        except M.Unspecified:
            break
    return spec


def _detail(disc):
    d = disc.detail if isinstance(disc.detail, dict) else {}
    return d, d.get("op") or {}, d.get("step", 0)


def _reset_to_default(disc, attr):
    d, _, _ = _detail(disc)
    return d.get("observed") == _DEFAULT_FP.get(attr) and d.get("expected") != d.get("observed")


@known.finding("C15/column-properties-lack-drop-invalid-rows")
def _k_properties(family, case, disc):
    m = re.fullmatch(r"(update_columns?):(touched|untouched)-column\.drop_invalid_rows", disc.kind)
    if not m:
        return False
    d, op, step = _detail(disc)
    if op.get("op") != m.group(1) or not _reset_to_default(disc, "drop_invalid_rows"):
        return False
    # trigger: a column of the receiver has drop_invalid_rows=True and the request does not set it
    spec = _spec_at(case, step)
    return any(c["drop_invalid_rows"] for c in spec["columns"])


_B_SET = {"title", "description", "default", "metadata", "report_duplicates", "parsers", "drop_invalid_rows"}
_B_RESET = {"title", "description", "default", "metadata", "report_duplicates", "drop_invalid_rows"}


@known.finding("C15/set-reset-index-drop-attributes")
def _k_setreset(family, case, disc):
    m = re.fullmatch(r"(set_index):moved-(?:index|mi-level)\.(\w+)|(reset_index):(?:moved-column|kept-index)\.(\w+)",
                     disc.kind)
    if not m:
        return False
    d, op, step = _detail(disc)
    if m.group(1):
        return op.get("op") == "set_index" and m.group(2) in _B_SET and _reset_to_default(disc, m.group(2))
    attr = m.group(4)
    if op.get("op") != "reset_index" or attr not in _B_RESET or not _reset_to_default(disc, attr):
        return False
    if "kept-index" in disc.kind:  # the level that remains alone is rebuilt from the same short attribute list
        ix = _spec_at(case, step)["index"]
        return bool(ix) and "levels" in ix
    return True


@known.finding("C15/reset-index-multiindex-reads-columns")
def _k_reset_mi_columns(family, case, disc):
    m = re.fullmatch(r"reset_index:(moved-column|kept-index)\.(coerce|parsers)", disc.kind)
    if not m:
        return False
    d, op, step = _detail(disc)
    ix = _spec_at(case, step)["index"]
    return (op.get("op") == "reset_index" and bool(ix) and "levels" in ix
            and _reset_to_default(disc, m.group(2)))


@known.finding("C15/reset-index-multiindex-stale-indexes")
def _k_stale_indexes(family, case, disc):
    if disc.kind != "reset_index:mi.indexes-names":
        return False
    d, op, step = _detail(disc)
    ix = _spec_at(case, step)["index"]
    if not (op.get("op") == "reset_index" and ix and "levels" in ix and len(ix["levels"]) >= 3):
        return False
    before = [l["name"] for l in ix["levels"]]
    return d.get("observed") == before and len(d.get("expected") or []) >= 2


@known.finding("C15/set-index-append-rebuilds-multiindex")
def _k_append_mi(family, case, disc):
    m = re.fullmatch(r"set_index:mi\.(_coerce|strict|name|ordered|unique)", disc.kind)
    if not m:
        return False
    d, op, step = _detail(disc)
    ix = _spec_at(case, step)["index"]
    return (op.get("op") == "set_index" and op.get("append") is True and bool(ix) and "levels" in ix
            and _reset_to_default(disc, m.group(1)))


@known.finding("C15/rename-columns-schema-unique")
def _k_rename_unique(family, case, disc):
    if not disc.kind.startswith("rename_columns:"):
        return False
    d, op, step = _detail(disc)
    if op.get("op") != "rename_columns":
        return False
    spec = _spec_at(case, step)
    uniq = spec["unique"] or []
    renamed = [k for k, v in op.get("map", {}).items() if k != v and k in uniq]
    if not renamed:
        return False
    what = disc.kind.split(":", 1)[1]
    if what == "schema.unique":
        return d.get("observed") == json.dumps(uniq)  # left exactly as it was
    if what in ("validate-error-after", "validate-error-after(bad-frame)"):
        # the shrunken constraint either crashes (every member renamed: pandas duplicated(subset=[]), polars unique
        # over a missing column) or fails and then crashes while formatting its single-column failure cases
        why = str(d.get("why"))
        return any(w in why for w in ("check_column_values_are_unique", "reshape_failure_cases",
                                      "failure_cases_metadata", "check_column_values_are_unique"))
    if what == "accepted-frame-rejected-after":
        return "DUPLICATES" in (d.get("reasons") or [])
    if what == "rejected-frame-accepted-after":
        return (d.get("breaker") or {}).get("kind") == "joint_dup"
    return False


# ===================================================== family: component update_checks / set_checks


@st.composite
def comp_cases(draw):
    backend = draw(st.sampled_from(["pandas", "pandas", "polars"]))
    kind = draw(st.sampled_from(["column", "index"])) if backend == "pandas" else "column"
    comp = draw(_component("ca", 0, 0.5, backend, kind == "column", False))
    new = draw(st.lists(st.sampled_from(M.checks_for(comp["dtype"], backend)), max_size=2, unique=True))
    return {"backend": backend, "kind": kind, "comp": comp, "new_checks": new,
            "method": draw(st.sampled_from(["update_checks", "set_checks"]))}


def evaluate_component(case):
    """ComponentSchema.update_checks/set_checks: a new component with the given checks, every other attribute
    kept, receiver untouched (the copy is shallow by design: sharing of the other attributes is not flagged)."""
    ev = Eval()
    backend, kind, comp = case["backend"], case["kind"], case["comp"]
    _warmup(backend)
    ev.labels += [f"component={backend}.{kind}", "method=" + case["method"]]
    ev.nontrivial = _nondefault(comp) >= 3
    build = (lambda c: M.build_column(c, backend)) if kind == "column" else M.build_index_level
    obj = build(comp)
    before = fp.fp_json(obj)
    m = case["method"]
    try:
        R = getattr(obj, m)([M.mk_check(c) for c in case["new_checks"]])
    except Exception as e:  # noqa: BLE001
        ev.add(f"{m}:raised", {"type": type(e).__name__, "msg": str(e)[:200]})
        return ev
    if fp.fp_json(obj) != before:
        ev.add(f"{m}:receiver-mutated", {"diff": fp.fp_diff(json.loads(before), json.loads(fp.fp_json(obj)))})
    if R is obj:
        ev.add(f"{m}:returned-receiver", None)
    if type(R) is not type(obj):
        ev.add(f"{m}:result-type", {"expected": type(obj).__name__, "observed": type(R).__name__})
        return ev
    exp = dict(comp)
    exp["checks"] = list(case["new_checks"])
    E = build(exp)
    diffs = []
    _cmp_attrs(diffs, kind, R, E, M.COL_ATTRS if kind == "column" else M.IDX_ATTRS)
    for path, detail in diffs:
        ev.add(f"{m}:{path}", detail)
    if not diffs:
        fo, fe = fp.fp_json(R), fp.fp_json(E)
        if fo != fe:
            ev.add(f"{m}:fingerprint-differs", {"diff": fp.fp_diff(json.loads(fe), json.loads(fo))})
        else:
            try:
                eq = (R == E)
            except Exception as e:  # noqa: BLE001
                eq = type(e).__name__
            if eq is not True:
                ev.add(f"{m}:eq-false-on-structurally-equal", {"eq": repr(eq)})
    return ev


FAMILIES = [
    Family("pandas_programs", evaluate, strategy=strat_pandas, n_quick=360, n_thorough=4000, shards_quick=6,
           shards_thorough=16,
           required_labels=["op=add_columns", "op=remove_columns", "op=select_columns", "op=rename_columns",
                            "op=update_column", "op=update_columns", "op=set_index", "op=reset_index",
                            "index=multi3", "converse-tracked", "state-revisit", "profile=plain"]),
    Family("polars_programs", evaluate, strategy=strat_polars, n_quick=240, n_thorough=2000, shards_quick=2,
           shards_thorough=8,
           required_labels=["op=add_columns", "op=rename_columns", "op=update_columns", "converse-tracked"]),
    Family("component_update_checks", evaluate_component, strategy=comp_cases, n_quick=300, n_thorough=1500,
           shards_quick=1, shards_thorough=2,
           required_labels=["component=pandas.column", "component=pandas.index", "component=polars.column"]),
]


@known.finding("C15/update-checks-shares-dict")
def _k_update_checks(family, case, disc):
    if family != "component_update_checks" or disc.kind not in ("update_checks:receiver-mutated",
                                                               "set_checks:receiver-mutated"):
        return False
    d = disc.detail if isinstance(disc.detail, dict) else {}
    paths = [x.get("path", "") for x in d.get("diff", [])]
    # trigger: the new checks differ from the receiver's; symptom: only the receiver's checks changed
    return case["new_checks"] != case["comp"]["checks"] and bool(paths) and all(p.startswith(".checks") for p in paths)
