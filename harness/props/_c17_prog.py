"""C17 helper: build a recording function from a JSON program, run it undecorated against a reference
binding (inspect.signature.bind + schema.validate) and decorated by pandera, and compare.

Nothing in here decides a verdict about *data*: ``schema.validate(obj, **options)`` is the trusted oracle
for accept/reject and for the parsed object.  What is checked is the decorators' own machinery: locating the
designated argument / output, passing the options, gating the body, handing over the parsed object, leaving
everything else alone.
"""
from __future__ import annotations

import inspect

import pandas as pd

from .. import fp
from ..core import HarnessError

OPT_KEYS = ("head", "tail", "sample", "random_state", "lazy", "inplace")
DEFAULT_OPTS = {"head": None, "tail": None, "sample": None, "random_state": None, "lazy": False, "inplace": False}


class Boom(Exception):
    """Raised by generated function bodies."""


class Skip(Exception):
    """Case outside the sound input domain."""


_SCHEMAS = {}


def schema_of(kind):
    import pandera as pa

    if kind not in _SCHEMAS:
        if kind == "gt0":
            s = pa.DataFrameSchema({"a": pa.Column(int, pa.Check.gt(0))})
        elif kind == "coerce":
            s = pa.DataFrameSchema({"a": pa.Column(int, pa.Check.gt(0), coerce=True)})
        elif kind == "ser_gt0":
            s = pa.SeriesSchema(int, pa.Check.gt(0), name="a")
        elif kind == "ser_coerce":
            s = pa.SeriesSchema(int, pa.Check.gt(0), name="a", coerce=True)
        elif kind in ("M", "Mc", "M2"):
            from ._c17_defs import MODELS

            s = MODELS[kind].to_schema()
        else:
            raise HarnessError(f"unknown schema kind {kind!r}")
        _SCHEMAS[kind] = s
    return _SCHEMAS[kind]


def nondefault_opts(opts):
    return {k: opts.get(k, DEFAULT_OPTS[k]) for k in OPT_KEYS if opts.get(k, DEFAULT_OPTS[k]) != DEFAULT_OPTS[k]}


def full_opts(opts):
    return {k: opts.get(k, DEFAULT_OPTS[k]) for k in OPT_KEYS}


def build_value(spec):
    if not isinstance(spec, dict):
        raise HarnessError(f"bad value spec {spec!r}")
    if "frame" in spec or "series" in spec:
        cells = spec.get("frame", spec.get("series"))
        dtype = "int64" if all(isinstance(c, int) and not isinstance(c, bool) for c in cells) else object
        ser = pd.Series(list(cells), dtype=dtype, name="a")
        if "series" in spec:
            return ser
        df = pd.DataFrame({"a": ser})
        carry = spec.get("carry")
        if carry:
            try:
                df = schema_of(carry).validate(df)
            except Exception:
                raise Skip("carry-frame-not-valid-for-carried-schema")
        if spec.get("edit") is not None:
            # edited in place after it was validated: same object, same attached schema, new content
            df["a"] = pd.Series(list(spec["edit"]), dtype="int64", index=df.index)
        return df
    return spec.get("v")


def is_pd(v):
    return isinstance(v, (pd.DataFrame, pd.Series))


def validate_outcome(schema, v, opts):
    """Trusted oracle call: schema.validate(v, **opts) -> ('ok', parsed) | ('SchemaError'|'SchemaErrors', None)."""
    o = fp.outcome(lambda: schema.validate(v, **full_opts(opts)))
    if o["kind"] == "ok":
        return "ok", o["value"]
    if o["kind"] in ("SchemaError", "SchemaErrors"):
        return o["kind"], None
    raise Skip("oracle-validate-" + o["kind"] + ":" + str(o.get("exc_type")))


class World:
    """One execution universe: its own objects, its own function, its own log."""

    def __init__(self, case):
        self.case = case
        self.fn = case["fn"]
        self.log = []
        self.passed = []
        self.raw_out = None
        self.K = None
        self.obj = None

    # ------------------------------------------------------------ values / snapshots
    def val(self, spec):
        v = build_value(spec)
        self.passed.append(v)
        return v

    def same_as(self, v):
        for i, p in enumerate(self.passed):
            if p is v:
                return i
        return None

    def snap(self, v, depth=0):
        if depth > 6:
            return {"deep": repr(v)[:80]}
        if is_pd(v):
            return {"pd": fp.snapshot(v), "same_as": self.same_as(v)}
        if isinstance(v, tuple):
            return {"tuple": [self.snap(x, depth + 1) for x in v]}
        if isinstance(v, list):
            return {"list": [self.snap(x, depth + 1) for x in v]}
        if isinstance(v, dict):
            return {"dict": [[repr(k), self.snap(x, depth + 1)] for k, x in v.items()]}
        if type(v).__name__ == "UserDict":
            return {"userdict": [[repr(k), self.snap(x, depth + 1)] for k, x in v.items()]}
        if type(v).__name__ == "deque":
            return {"deque": [self.snap(x, depth + 1) for x in v]}
        if self.K is not None and v is self.K:
            return {"v": "<the class>"}
        if self.obj is not None and v is self.obj:
            return {"v": "<the instance>"}
        if inspect.iscoroutine(v):
            v.close()
            return {"v": "<coroutine>"}
        return {"v": f"{type(v).__name__}:{v!r}"[:120]}

    # --------------------------------------------------------------------- function
    def source(self):
        from ._c17_defs import ANNOTATIONS

        fn = self.fn
        parts, names = [], []
        kind = fn["kind"]
        if kind == "method":
            parts.append("self")
        elif kind == "classmethod":
            parts.append("cls")
        self.defaults, self.anns = {}, {}
        seen_var = False
        star_emitted = False
        for p in fn["params"]:
            n, k = p["name"], p["k"]
            ann = ""
            if p.get("ann"):
                self.anns[n] = ANNOTATIONS[p["ann"]][0]
                ann = f": _A[{n!r}]"
            dflt = ""
            if p.get("default") is not None:
                self.defaults[n] = build_value(p["default"])
                dflt = f" = _D[{n!r}]"
            if k == "pos":
                parts.append(f"{n}{ann}{dflt}")
            elif k == "var":
                parts.append(f"*{n}{ann}")
                seen_var = True
            elif k == "kwonly":
                if not seen_var and not star_emitted:
                    parts.append("*")
                    star_emitted = True
                parts.append(f"{n}{ann}{dflt}")
            elif k == "varkw":
                parts.append(f"**{n}{ann}")
            else:
                raise HarnessError(f"bad param kind {k}")
            names.append(n)
        ret = ""
        if fn.get("ret_ann"):
            self.anns["return"] = ANNOTATIONS[fn["ret_ann"]][0]
            ret = " -> _A['return']"
        selfexpr = {"method": "self", "classmethod": "cls"}.get(kind, "None")
        head = f"{'async ' if fn.get('async') else ''}def f({', '.join(parts)}){ret}:"
        body = f"    return _body(dict({', '.join(f'{n}={n}' for n in names)}), {selfexpr})"
        return head + "\n" + body + "\n"

    def make_fn(self):
        src = self.source()
        from ._c17_defs import FORWARD_NAMES

        ns = dict(FORWARD_NAMES, _A=self.anns, _D=self.defaults, _body=self._body)
        try:
            # (dont_inherit: this module's `from __future__ import annotations` must not leak into the generated function -
            # its annotations are evaluated objects unless the case asks for postponed ones)
            flags = __import__("__future__").annotations.compiler_flag if self.case.get("postponed") else 0
            exec(compile(src, "<c17-program>", "exec", flags=flags, dont_inherit=True), ns)  # noqa: S102 - generated by the harness itself
        except SyntaxError as e:
            raise HarnessError(f"generated source does not compile: {e}\n{src}")
        self.src = src
        return ns["f"]

    def _body(self, argsdict, selfobj):
        tag = None
        if self.fn["kind"] in ("method", "classmethod"):
            tag = "instance" if selfobj is self.obj else "class" if selfobj is self.K else f"other:{type(selfobj).__name__}"
        self.log.append({"self": tag, "args": {k: self.snap(v) for k, v in argsdict.items()}})
        b = self.fn["body"]
        if b.get("raise"):
            raise Boom("boom")
        src = b.get("src", "fresh")
        if src == "fresh":
            of = build_value(b["fresh"]) if b.get("fresh") is not None else None
        else:
            of = argsdict[src]
        shape = b.get("shape", "frame")
        if shape == "frame":
            out = of
        elif shape == "tuple":
            out = ("foo", of)
        elif shape == "list":
            out = ["foo", of]
        elif shape == "dict":
            out = {"k": of, "s": "foo"}
        elif shape == "userdict":  # mapping / sequence types that are not the builtin ones
            import collections

            out = collections.UserDict({"k": of, "s": "foo"})
        elif shape == "deque":
            import collections

            out = collections.deque(["foo", of])
        elif shape == "nested":
            out = ("foo", {"k": of})
        elif shape == "pair":
            out = (of, build_value(b["fresh2"]) if b.get("fresh2") is not None else None)
        elif shape == "none":
            out = None
        elif shape == "scalar":
            out = 42
        else:
            raise HarnessError(f"bad shape {shape}")
        self.raw_out = self.snap(out)
        return out

    # ------------------------------------------------------------------------ call
    def build_call(self):
        c = self.case["call"]
        args = [self.val(s) for s in c["pos"]]
        kwargs = {}
        for name, s in c["kw"]:
            kwargs[name] = self.val(s)
        return args, kwargs

    def make_class(self, f):
        kind = self.fn["kind"]
        if kind == "function":
            return
        member = {"method": f, "classmethod": classmethod(f), "staticmethod": staticmethod(f)}[kind]
        self.K = type("K", (), {"f": member})
        self.obj = self.K()

    def caller_state(self):
        return [fp.snapshot(p) if is_pd(p) else None for p in self.passed]


def drive(r):
    """Await a coroutine without an event loop (the generated bodies never suspend)."""
    if not inspect.iscoroutine(r):
        return r
    try:
        r.send(None)
    except StopIteration as e:
        return e.value
    r.close()
    raise HarnessError("generated coroutine suspended")


# ---------------------------------------------------------------------------- reference


def designated_inputs(case):
    """[(param name, [schema kinds tried in order], optional?)] in the order the decorator validates."""
    from ._c17_defs import ANNOTATIONS

    if case["deco"] == "check_types":
        out = []
        for p in case["fn"]["params"]:
            if p.get("ann"):
                _, models, optional = ANNOTATIONS[p["ann"]]
                out.append((p["name"], models, optional))
        return out
    return [(i["name"], [i["schema"]], False) for i in case.get("inputs", [])]


def designated_outputs(case):
    from ._c17_defs import ANNOTATIONS

    if case["deco"] == "check_types":
        if case["fn"].get("ret_ann"):
            _, models, optional = ANNOTATIONS[case["fn"]["ret_ann"]]
            return [{"getter": None, "schemas": models, "optional": optional}]
        return []
    return [{"getter": o["getter"], "schemas": [o["schema"]], "optional": False, "shape": case["fn"]["body"].get("shape")}
            for o in case.get("outs", [])]


def _ref_validate_one(v, schema_kinds, optional, opts, check_types):
    """-> ('ok', parsed) | (errkind, None).  errkind 'schema-any' = SchemaError or SchemaErrors."""
    if check_types:
        if optional and v is None:
            return "ok", v
        if v is None:
            # None where a (non-Optional) DataFrame[Model] is declared is not valid data: the body must not run / the
            # value must not reach the caller; which exception reports it is not documented (any will do)
            return "any-error", None
        if not is_pd(v):
            # check_types documents pass-through only for None under Optional; anything else non-frame
            # is outside the generated domain
            raise Skip("non-frame-to-annotated-slot")
        errs = []
        for sk in schema_kinds:
            schema = schema_of(sk)
            carried = getattr(getattr(v, "pandera", None), "schema", None)
            if carried is not None and carried == schema:
                return "ok", v  # documented skip: the frame already carries this exact schema
            k, parsed = validate_outcome(schema, v, opts)
            if k == "ok":
                return "ok", parsed
            errs.append(k)
        return (errs[0] if len(errs) == 1 else "schema-any"), None
    return validate_outcome(schema_of(schema_kinds[0]), v, opts)


def callable_getter(shape):
    return {
        "frame": lambda x: x,
        "tuple": lambda x: x[1],
        "list": lambda x: x[1],
        "dict": lambda x: x["k"],
        "userdict": lambda x: x["k"],
        "deque": lambda x: x[1],
        "nested": lambda x: x[1]["k"],
        "pair": lambda x: x[0],
    }[shape]


def reference(case, opts, in_opts=None):
    """in_opts: options used for the *input* validations only (diagnosis of 'input options ignored')"""
    in_opts = opts if in_opts is None else in_opts
    w = World(case)
    raw = w.make_fn()
    w.make_class(raw)
    args, kwargs = w.build_call()
    kind = case["fn"]["kind"]
    first = [w.obj] if kind == "method" else [w.K] if kind == "classmethod" else []
    sig = inspect.signature(raw)
    try:
        ba = sig.bind(*first, *args, **kwargs)
    except TypeError:
        raise Skip("call-does-not-bind")
    is_types = case["deco"] == "check_types"
    params = {p["name"]: p for p in case["fn"]["params"]}
    res = {"raised": None, "stage": None, "deco_error": None}

    def fail(kind_, stage):
        res.update(raised=kind_, stage=stage, body_calls=len(w.log), log=w.log, result=None,
                   caller_state=w.caller_state(), raw_out=w.raw_out)
        return res

    # every designated value, in the order the decorator meets them (signature order)
    slots = []  # (param name, sub-key or None, schemas, optional)
    for name, schemas, optional in designated_inputs(case):
        if name not in ba.arguments:
            if is_types:
                continue  # default used / nothing passed: nothing to validate
            raise Skip("designated-argument-not-passed")
        pk = params[name]["k"]
        if pk == "var":
            ba.arguments[name] = list(ba.arguments[name])
            slots += [(name, i, schemas, optional) for i in range(len(ba.arguments[name]))]
        elif pk == "varkw":
            slots += [(name, k, schemas, optional) for k in ba.arguments[name]]
        else:
            slots.append((name, None, schemas, optional))
    res["n_designated"] = len(slots)
    failed = None
    for name, sub, schemas, optional in slots:
        cur = ba.arguments[name] if sub is None else ba.arguments[name][sub]
        k, parsed = _ref_validate_one(cur, schemas, optional, in_opts, is_types)  # may raise Skip
        if failed is not None:
            continue  # dry run only: a non-schema error of the oracle anywhere puts the case outside the domain
        if k != "ok":
            failed = k
        elif sub is None:
            ba.arguments[name] = parsed
        else:
            ba.arguments[name][sub] = parsed
    for name, pp in params.items():
        if pp["k"] == "var" and isinstance(ba.arguments.get(name), list):
            ba.arguments[name] = tuple(ba.arguments[name])
    if failed is not None:
        return fail(failed, "input")

    try:
        out = drive(raw(*ba.args, **ba.kwargs))
    except Boom:
        return fail("Boom", "body")

    for o in designated_outputs(case):
        g = o["getter"]
        if g is None:
            target = out
        elif g == "callable":
            target = callable_getter(o["shape"])(out)
        else:
            target = out[g]
        k, parsed = _ref_validate_one(target, o["schemas"], o["optional"], opts, is_types)
        if k != "ok":
            return fail(k, "output")
        if g is None:
            out = parsed
        elif g == "callable":
            pass  # documented: validated, not re-assigned
        elif isinstance(out, tuple):
            lst = list(out)
            lst[g] = parsed
            out = tuple(lst)
        else:
            out[g] = parsed
    res.update(body_calls=len(w.log), log=w.log, result=w.snap(out), caller_state=w.caller_state(), raw_out=w.raw_out)
    return res


# ---------------------------------------------------------------------------- decorated


def _getter_value(case, inp):
    g = inp["getter"]
    if g == "none":
        return None
    if g == "str":
        return inp["name"]
    if g == "int":
        pos = [p["name"] for p in case["fn"]["params"] if p["k"] == "pos"]
        return pos.index(inp["name"])  # index in the args part of the signature, self/cls not counted
    raise HarnessError(f"bad getter {g}")


def decorate(case, raw, opts):
    return decorator_for(case, opts)(raw)


def decorator_for(case, opts):
    """The decorator *object* (raw -> decorated), so that one object can be applied to several callables."""
    import pandera as pa

    kw = nondefault_opts(opts)
    deco = case["deco"]
    shape = case["fn"]["body"].get("shape")

    def out_getter(o):
        return callable_getter(shape) if o["getter"] == "callable" else o["getter"]

    if deco == "check_types":
        if case.get("bare") and not kw:
            return pa.check_types
        return pa.check_types(**kw)
    if deco == "check_output":
        (o,) = case["outs"]
        return pa.check_output(schema_of(o["schema"]), out_getter(o), **kw)
    if deco == "check_input":
        (inp,) = case["inputs"]
        di = pa.check_input(schema_of(inp["schema"]), _getter_value(case, inp), **kw)
        outs = case.get("outs") or []
        if not outs:
            return di
        (o,) = outs
        do = pa.check_output(schema_of(o["schema"]), out_getter(o), **kw)
        if case.get("stack") == "out_outer":
            return lambda raw: do(di(raw))
        return lambda raw: di(do(raw))
    if deco == "check_io":
        outs = case.get("outs") or []
        form = case.get("out_form", "list")
        if not outs:
            out = None
        elif form == "schema":
            out = schema_of(outs[0]["schema"])
        elif form == "tuple":
            out = (out_getter(outs[0]), schema_of(outs[0]["schema"]))
        else:
            out = [(out_getter(o), schema_of(o["schema"])) for o in outs]
        ins = {i["name"]: schema_of(i["schema"]) for i in case.get("inputs", [])}
        return pa.check_io(out=out, **kw, **ins)
    raise HarnessError(f"bad deco {deco}")


def exc_class(e):
    import pandera.errors as pe

    if isinstance(e, Boom):
        return "Boom"
    if isinstance(e, pe.SchemaErrors):
        return "SchemaErrors"
    if isinstance(e, pe.SchemaError):
        return "SchemaError"
    return "other:" + type(e).__name__


def observed(case, opts, decorator=None):
    w = World(case)
    raw = w.make_fn()
    res = {"raised": None, "deco_error": None, "msg": None}
    try:
        dec = decorate(case, raw, opts) if decorator is None else decorator(raw)
    except HarnessError:
        raise
    except Exception as e:
        res.update(deco_error=type(e).__name__, msg=str(e)[:200], body_calls=0, log=[], result=None, caller_state=[],
                   raw_out=None, was_coroutine=None)
        return res
    w.make_class(dec)
    args, kwargs = w.build_call()
    kind = case["fn"]["kind"]
    via = case["call"].get("via", "instance")
    if kind == "function":
        call = lambda: dec(*args, **kwargs)  # noqa: E731
    elif kind == "method" and via == "class":
        call = lambda: w.K.f(w.obj, *args, **kwargs)  # noqa: E731
    elif via == "class":
        call = lambda: w.K.f(*args, **kwargs)  # noqa: E731
    else:
        call = lambda: w.obj.f(*args, **kwargs)  # noqa: E731
    was_coro = None
    out = None
    # Hypothesis seeds numpy's global generator with 0 before every example, which makes an *unseeded*
    # DataFrame.sample indistinguishable from random_state=0: move the global generator somewhere else (a function of the
    # case) for the decorated call, so that a random_state the decorator fails to pass on shows as a different sample.
    import numpy as np

    import json
    import zlib

    np_state = np.random.get_state()
    np.random.seed(1000 + zlib.crc32(json.dumps(case, sort_keys=True, default=str).encode()) % (2**31))
    try:
        r = call()
        was_coro = inspect.iscoroutine(r)
        out = drive(r)
    except HarnessError:
        raise
    except Exception as e:  # whatever pandera / the body raised
        res["raised"] = exc_class(e)
        res["msg"] = str(e)[:160]
    finally:
        np.random.set_state(np_state)
    res.update(body_calls=len(w.log), log=w.log, result=None if res["raised"] else w.snap(out),
               caller_state=w.caller_state(), raw_out=w.raw_out, was_coroutine=was_coro)
    return res


# ------------------------------------------------------------------------------ compare


def _strip_identity(x):
    if isinstance(x, dict):
        return {k: _strip_identity(v) for k, v in x.items() if k != "same_as"}
    if isinstance(x, list):
        return [_strip_identity(v) for v in x]
    return x


def _schemaish(k):
    return k in ("SchemaError", "SchemaErrors", "schema-any")


def _log_diff(elog, olog):
    """names of parameters (or 'self') whose recorded value differs in the first body call"""
    if not elog or not olog:
        return []
    e, o = elog[0], olog[0]
    out = []
    if e["self"] != o["self"]:
        out.append("self")
    for k in sorted(set(e["args"]) | set(o["args"])):
        if e["args"].get(k) != o["args"].get(k):
            out.append(k)
    return out


def compare(exp, obs, case):
    """-> list of (kind, detail)"""
    out = []
    is_async = bool(case["fn"].get("async"))
    if obs["deco_error"]:
        if exp.get("deco_error") != obs["deco_error"]:
            out.append(("decoration-raised:" + obs["deco_error"], {"msg": obs["msg"]}))
        return out
    if exp.get("deco_error"):
        out.append(("decoration-error-missing", {"expected": exp["deco_error"]}))
        return out
    er, orr = exp["raised"], obs["raised"]
    eb, ob = exp["body_calls"], obs["body_calls"]
    brief = {"expected": {"raised": er, "stage": exp.get("stage"), "body_calls": eb},
             "observed": {"raised": orr, "body_calls": ob, "msg": obs.get("msg")}}
    if ob > 1:
        out.append(("body-ran-more-than-once", brief))
    if eb == 0 and ob > 0:
        out.append(("body-ran-on-rejected-input", brief))
        return out
    if eb > 0 and ob == 0:
        if orr is None:
            out.append(("body-not-run-but-no-error", brief))
        elif _schemaish(orr):
            out.append(("valid-input-rejected", brief))
        else:
            out.append(("unexpected-exception:" + orr.split(":")[-1], brief))
        return out
    if eb == 0 and ob == 0:
        # both rejected the input
        if orr is None:
            out.append(("rejected-input-call-returned-without-error", brief))
        elif er == "any-error":
            pass
        elif not _schemaish(orr):
            out.append(("unexpected-exception:" + orr.split(":")[-1], brief))
        elif er != "schema-any" and er != orr:
            out.append(("wrong-error-class", brief))
    else:
        # body ran in both worlds
        diff = _log_diff(exp["log"], obs["log"])
        if diff:
            e0, o0 = exp["log"][0], obs["log"][0]
            for k in diff:  # one discrepancy per parameter, so that each can be attributed separately
                ev_, ov_ = (e0["self"], o0["self"]) if k == "self" else (e0["args"].get(k), o0["args"].get(k))
                ident = _strip_identity(ev_) == _strip_identity(ov_)
                out.append(("body-args-differ" + (":identity-only" if ident else ""),
                            {"params": [k], "expected": {k: ev_}, "observed": {k: ov_}}))
        args_value_diff = any(k == "body-args-differ" for k, _ in out)
        if er is None and orr is None:
            # (a result that differs because the body was handed different values is the same discrepancy)
            if exp["result"] != obs["result"] and not args_value_diff:
                ident = _strip_identity(exp["result"]) == _strip_identity(obs["result"])
                out.append(("result-differs" + (":identity-only" if ident else ""), {"expected": exp["result"], "observed": obs["result"],
                                               "observed_equals_unvalidated_body_output": obs["result"] == obs["raw_out"]
                                               and exp["result"] != exp["raw_out"]}))
        elif er is None:
            if _schemaish(orr):
                out.append(("valid-output-rejected", brief))
            elif not diff:
                out.append(("unexpected-exception:" + orr.split(":")[-1], brief))
        elif orr is None:
            if er == "Boom":
                out.append(("body-exception-swallowed", brief))
            else:
                out.append(("output-not-validated", brief))
        elif er == "Boom" or orr == "Boom":
            if er != orr:
                out.append(("body-exception-replaced", brief))
        elif er == "any-error":
            pass
        elif not _schemaish(orr):
            out.append(("unexpected-exception:" + orr.split(":")[-1], brief))
        elif er != "schema-any" and er != orr:
            out.append(("wrong-error-class", brief))
    multi_rejected = exp.get("stage") == "input" and exp.get("n_designated", 1) >= 2
    # compared only when nothing else is off: after another discrepancy the caller's objects differ as a consequence
    if exp["caller_state"] != obs["caller_state"] and not multi_rejected and not out:
        out.append(("caller-objects-state-differs", {"expected": exp["caller_state"], "observed": obs["caller_state"]}))
    if obs.get("was_coroutine") is not None and obs["was_coroutine"] != is_async:
        out.append(("awaitability-changed", {"async": is_async, "returned_coroutine": obs["was_coroutine"]}))
    return out
