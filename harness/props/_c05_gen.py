"""C05 generator: Hypothesis strategy of JSON histories {"schema", "probes", "ops"}."""
from __future__ import annotations

from hypothesis import strategies as st

NAMES = ["a", "b", "c", "ab"]
# regex pattern -> labels it matches (the generator builds probe frames with 1..3 of them)
REGEX = {"^a.*$": ["ab", "ac", "a_1"], "x\\d": ["x1", "x2", "x3"], "col_[ab]": ["col_a", "col_b"]}

NUM = ["int64", "float64"]
DT = ["datetime64[ns]", "datetime64[ns, UTC]", "dt_agnostic", "dt_agnostic_utc"]
FRAME_DTYPES = ["int64", "int64", "float64", "float64", "str", "str", "bool", "Int64", "category",
                "timedelta64[ns]", None] + DT + ["dt_agnostic"]
MODEL_DTYPES = ["int64", "float64", "str", "bool"]

CONFORMING = {
    "int64": ["int64"], "float64": ["float64"], "str": ["object"], "bool": ["bool"], "Int64": ["Int64"],
    "category": ["category"], "timedelta64[ns]": ["timedelta"], None: ["int64", "object", "float64"],
    "datetime64[ns]": ["datetime"], "datetime64[ns, UTC]": ["dt_utc"],
    "dt_agnostic": ["dt_utc", "dt_paris", "dt_mixed", "dt_utc"], "dt_agnostic_utc": ["dt_utc", "dt_paris", "datetime"],
}
ALL_PHYS = ["int64", "float64", "object", "bool", "Int64", "category", "timedelta", "datetime", "dt_utc", "dt_paris",
            "dt_mixed"]
STRS = ["a", "ab", "b", "abc", "", "x1"]
DATES = ["2020-01-01", "2021-06-15T12:00:00", "1999-12-31", "2020-01-02"]


def cells_for(phys, n):
    if phys in ("int64", "timedelta"):
        e = st.integers(-3, 6)
    elif phys == "float64":
        e = st.sampled_from([-1.5, 0.0, 0.5, 1.0, 2.5, 3.0, None])
    elif phys == "object":
        e = st.sampled_from(STRS + [None])
    elif phys == "bool":
        e = st.booleans()
    elif phys == "Int64":
        e = st.sampled_from([-2, 0, 1, 2, 5, None])
    elif phys == "category":
        e = st.sampled_from(["a", "b", "ab"])
    elif phys == "dt_mixed":
        e = st.sampled_from(DATES)
    else:
        e = st.sampled_from(DATES + [None])
    return st.lists(e, min_size=n, max_size=n)


def _opts():
    return st.fixed_dictionaries({}, optional={
        "ignore_na": st.booleans(), "raise_warning": st.just(True), "n_failure_cases": st.just(1)})


def _mk(kind, args, opts):
    d = {"kind": kind, "args": args}
    d.update(opts)
    return d


def check_for(dtype, model=False):
    """strategy of CheckSpec fitting a column dtype"""
    i = st.integers(-2, 4)
    opts = st.just({}) if model else _opts()
    alts = []
    if dtype in ("int64", "float64", "Int64", None):
        alts += [
            st.builds(lambda k, v, o: _mk(k, [v], o), st.sampled_from(["gt", "ge", "lt", "le", "eq", "ne"]), i, opts),
            st.builds(lambda a, b, o: _mk("in_range", [min(a, b), max(a, b)], o), i, i, opts),
            st.builds(lambda vs, k, o: _mk(k, [sorted(set(vs))], o), st.lists(i, min_size=1, max_size=3),
                      st.sampled_from(["isin", "notin"]), opts),
        ]
    if dtype in ("str", "category"):
        alts += [
            st.builds(lambda k, v, o: _mk(k, [v], o),
                      st.sampled_from(["str_matches", "str_contains", "str_startswith", "str_endswith"]),
                      st.sampled_from(["a", "b", "ab", "^a", "x"]), opts),
            st.builds(lambda vs, k, o: _mk(k, [sorted(set(vs))], o), st.lists(st.sampled_from(STRS), min_size=1, max_size=3),
                      st.sampled_from(["isin", "notin"]), opts),
            st.builds(lambda a, b, o: _mk("str_length", [min(a, b), max(a, b)], o), st.integers(0, 3), st.integers(0, 3), opts),
        ]
    if dtype in DT and not model:
        alts += [st.builds(lambda k, v, o: _mk(k, [{"ts": v}], o), st.sampled_from(["ge", "le", "gt"]),
                           st.sampled_from(DATES[:3]), opts),
                 # collection-valued statistics of a non-JSON type (serialisers must not convert them in place)
                 st.builds(lambda vs, k, o: _mk(k, [[{"ts": v} for v in vs]], o),
                           st.lists(st.sampled_from(DATES[:3]), min_size=1, max_size=3, unique=True),
                           st.sampled_from(["isin", "notin"]), opts)]
    if not model:
        alts += [
            st.builds(lambda k, o: _mk(k, [], o), st.sampled_from(["len_le_3", "len_le_1", "no_dups", "elem_not_none"]), opts),
            st.builds(lambda n, o: _mk("registered", [n], o), st.integers(0, 3), opts),
            st.builds(lambda n, o: _mk("kw_min_rows", [n], o), st.integers(0, 3), opts),
        ]
    if not alts:  # model bool column
        alts = [st.builds(lambda vs: _mk("isin", [vs], {}), st.sampled_from([[True], [True, False]]))]
    return st.one_of(alts)


@st.composite
def column_spec(draw, name, regex, kind):
    model = kind == "model"
    dtype = draw(st.sampled_from(MODEL_DTYPES if model else FRAME_DTYPES))
    checks = draw(st.lists(check_for(dtype, model), max_size=2))
    if model:  # a Field holds one check per kind
        seen, uniq = set(), []
        for c in checks:
            if c["kind"] not in seen:
                seen.add(c["kind"])
                uniq.append(c)
        checks = uniq
    c = {"name": name, "regex": regex, "dtype": dtype, "checks": checks,
         "nullable": draw(st.booleans()), "unique": draw(st.sampled_from([False, False, True])),
         "coerce": draw(st.sampled_from([False, False, True])),
         "required": True if model else draw(st.sampled_from([True, True, True, False]))}
    if not model and draw(st.integers(0, 9)) == 0:
        c["parser"] = True
    return c


@st.composite
def index_component(draw, name):
    dtype = draw(st.sampled_from(["int64", "str", "int64", None]))
    return {"dtype": dtype, "name": name, "checks": draw(st.lists(check_for(dtype), max_size=1)),
            "nullable": False, "unique": draw(st.booleans()), "coerce": draw(st.sampled_from([False, False, True]))}


@st.composite
def schema_spec(draw, kind):
    if kind == "series":
        col = draw(column_spec(draw(st.sampled_from(["s", None])), False, kind))
        col["required"] = True
        col.pop("parser", None)
        ix = draw(st.one_of(st.none(), st.none(), index_component("i")))
        return {"kind": "series", "columns": [col], "index": ix}
    ncols = draw(st.integers(1, 3))
    # regex columns are the trigger of a known defect: a fixed share of schemas has none
    allow_regex = draw(st.integers(0, 9)) < 6
    names, cols = [], []
    pats = list(REGEX)
    for _ in range(ncols):
        regex = allow_regex and draw(st.integers(0, 2)) == 0
        pool = [p for p in (pats if regex else NAMES) if p not in names]
        if not pool:
            continue
        name = draw(st.sampled_from(pool))
        names.append(name)
        cols.append(draw(column_spec(name, regex, kind)))
    spec = {"kind": kind, "columns": cols,
            "strict": draw(st.sampled_from([False, False, True, "filter"])),
            "ordered": draw(st.sampled_from([False, False, False, True])),
            "coerce": draw(st.sampled_from([False, False, False, True])),
            "name": draw(st.sampled_from([None, "sch"]))}
    plain = [c["name"] for c in cols if not c["regex"]]
    if plain and draw(st.integers(0, 5)) == 0:
        spec["unique"] = [plain[0]]
    if kind == "model":
        spec["checks"] = draw(st.sampled_from([[], [], [{"kind": "len_le_3", "args": []}]]))
        spec["index"] = None
        return spec
    spec["checks"] = draw(st.lists(st.one_of(
        st.builds(lambda k, o: _mk(k, [], o), st.sampled_from(["len_le_3", "no_dups", "len_le_1"]), _opts()),
        st.builds(lambda n, o: _mk("registered", [n], o), st.integers(0, 3), _opts()),
        st.builds(lambda k, v, o: _mk(k, [v], o), st.sampled_from(["ge", "le", "ne"]), st.integers(-2, 4), _opts()),
    ), max_size=2)) if draw(st.integers(0, 2)) == 0 else []
    spec["index"] = draw(st.one_of(st.none(), st.none(), index_component("i"),
                                   st.tuples(index_component("i"), index_component("j")).map(list)))
    spec["dtype"] = draw(st.sampled_from([None] * 6 + ["float64", "int64", "str"]))
    spec["add_missing_columns"] = draw(st.sampled_from([False] * 5 + [True]))
    spec["drop_invalid_rows"] = draw(st.sampled_from([False] * 7 + [True]))
    if draw(st.integers(0, 4)) == 0:
        spec["title"] = "T"
        spec["description"] = "a 'quoted' \"description\""
    return spec


def labels_for(col, draw):
    if not col["regex"]:
        return [col["name"]]
    pool = REGEX[col["name"]]
    k = draw(st.integers(1, len(pool)))
    return pool[:k]


@st.composite
def index_table(draw, spec_index, n, conform=False):
    if spec_index is None:
        if conform or draw(st.integers(0, 4)) > 0:
            return None
        comps = [{"dtype": "int64", "name": None}]
    else:
        comps = spec_index if isinstance(spec_index, list) else [spec_index]
        if not conform and draw(st.integers(0, 7)) == 0:
            return None  # RangeIndex against an index schema (name / level-count mismatch)
    names, levels = [], []
    for c in comps:
        names.append(c["name"] if (conform or draw(st.integers(0, 9))) else "other")
        as_str = (c["dtype"] == "str") != ((not conform) and draw(st.integers(0, 7)) == 0)
        pool = ["a", "b", "c", "d"] if as_str else [0, 1, 2, 3]
        if conform:
            ok = [v for v in pool if all(cell_ok(k, v) for k in c.get("checks", []))]
            pool = ok or pool
        uniq = conform and (c.get("unique") or any(k["kind"] == "no_dups" for k in c.get("checks", []))) and len(pool) >= n
        levels.append(draw(st.lists(st.sampled_from(pool), min_size=n, max_size=n, unique=bool(uniq))))
    return {"names": names, "levels": levels}


def _pool(phys):
    return {
        "int64": list(range(-3, 7)), "timedelta": list(range(-3, 7)),
        "float64": [-1.5, 0.0, 0.5, 1.0, 2.5, 3.0, None], "object": STRS + [None], "bool": [True, False],
        "Int64": [-2, 0, 1, 2, 5, None], "category": ["a", "b", "ab"], "dt_mixed": list(DATES),
    }.get(phys, DATES + [None])


def cell_ok(cs, v):
    """does a cell satisfy a built-in CheckSpec (None = null cell: passes unless ignore_na is False)"""
    import re as _re

    k, a = cs["kind"], cs.get("args", [])
    if v is None:
        return cs.get("ignore_na", True) is not False
    try:
        if isinstance(a and a[0], dict):
            a = [x["ts"] for x in a]
        if k == "gt":
            return v > a[0]
        if k == "ge":
            return v >= a[0]
        if k == "lt":
            return v < a[0]
        if k == "le":
            return v <= a[0]
        if k == "eq":
            return v == a[0]
        if k == "ne":
            return v != a[0]
        if k == "in_range":
            return a[0] <= v <= a[1]
        if k == "isin":
            return v in a[0]
        if k == "notin":
            return v not in a[0]
        if k == "str_matches":
            return _re.match(a[0], v) is not None
        if k == "str_contains":
            return _re.search(a[0], v) is not None
        if k == "str_startswith":
            return v.startswith(a[0])
        if k == "str_endswith":
            return v.endswith(a[0])
        if k == "str_length":
            return a[0] <= len(v) <= a[1]
    except (TypeError, AttributeError):  # check does not fit the physical type: no constraint on the pool
        return True
    return True


def _row_bounds(spec):
    lo, hi = 0, 4
    allchecks = list(spec.get("checks", []))
    for c in spec["columns"]:
        allchecks += c.get("checks", [])
    ix = spec.get("index")
    for i in (ix if isinstance(ix, list) else [ix] if ix else []):
        allchecks += i.get("checks", [])
    for cs in allchecks:
        if cs["kind"] == "len_le_3":
            hi = min(hi, 3)
        elif cs["kind"] == "len_le_1":
            hi = min(hi, 1)
        elif cs["kind"] in ("registered", "kw_min_rows"):
            lo = max(lo, cs["args"][0])
    return (lo, hi) if lo <= hi else (0, 4)


@st.composite
def conforming_cells(draw, col, phys, n, frame_checks=()):
    checks = list(col.get("checks", [])) + [c for c in frame_checks if c["kind"] in ("ge", "le", "ne")]
    pool = [v for v in _pool(phys) if (v is not None or col.get("nullable")) and all(cell_ok(c, v) for c in checks)]
    if not pool:
        pool = [v for v in _pool(phys) if v is not None]
    uniq = col.get("unique") or any(c["kind"] == "no_dups" for c in checks)
    return draw(st.lists(st.sampled_from(pool), min_size=n, max_size=n, unique=bool(uniq) and len(pool) >= n))


@st.composite
def probe_for(draw, spec):
    conform_all = draw(st.integers(0, 1)) == 1  # every column built to conform (verdict is still pandera's)
    lo, hi = _row_bounds(spec) if conform_all else (0, 4)
    n = draw(st.integers(lo, hi))
    cols = []
    for c in spec["columns"]:
        if not conform_all and spec["kind"] != "series" and draw(st.integers(0, 11)) == 0:
            continue  # column missing
        for lab in labels_for(c, draw):
            conform = conform_all or draw(st.integers(0, 3)) > 0
            phys = draw(st.sampled_from(CONFORMING[c["dtype"]] if conform else ALL_PHYS))
            if spec.get("dtype") in ("int64", "float64") and conform_all:
                phys = spec["dtype"]
            if conform:
                cells = draw(conforming_cells(c, phys, n, spec.get("checks", [])))
            else:
                cells = draw(cells_for(phys, n))
            cols.append({"name": lab, "phys": phys, "cells": cells})
    if spec["kind"] != "series":
        if draw(st.integers(0, 6 if not conform_all else 20)) == 0:
            cols.append({"name": "extra", "phys": "int64", "cells": draw(cells_for("int64", n))})
        if len(cols) > 1 and not conform_all and draw(st.integers(0, 7)) == 0:
            cols = cols[::-1]
    if spec["kind"] == "series":
        cols[0]["name"] = spec["columns"][0]["name"] if (conform_all or draw(st.integers(0, 7))) else "other"
    return {"n": n, "columns": cols, "index": draw(index_table(spec.get("index"), n, conform_all))}


# ---------------------------------------------------------------------------- ops

COMMON = [("validate", 30), ("repr", 3), ("str", 3), ("eq", 3), ("copy", 2), ("deepcopy", 3), ("pickle", 2),
          ("statistics", 7), ("strategy", 4), ("draw", 4), ("example", 1), ("coerce_dtype", 4), ("properties", 1)]
FRAME_ONLY = [("component_validate", 8), ("index_validate", 2), ("to_yaml", 6), ("to_json", 4), ("to_script", 2),
              ("dtypes", 2), ("get_dtypes", 2), ("get_metadata", 2), ("add_columns", 2), ("remove_columns", 2),
              ("update_column", 3), ("update_columns", 2), ("rename_columns", 3), ("select_columns", 2),
              ("set_index", 3), ("reset_index", 3), ("component_update_checks", 2)]
MODEL_ONLY = [("model_to_schema", 4), ("model_subclass", 3), ("model_to_yaml", 3), ("model_edit_returned", 2),
              ("model_example", 1), ("model_empty", 4), ("model_json_schema", 2), ("model_get_metadata", 2)]
SERIES_ONLY = [("update_checks", 3), ("index_validate", 2)]


def _weighted(pairs):
    out = []
    for k, w in pairs:
        out += [k] * w
    return st.sampled_from(out)


@st.composite
def op_for(draw, spec, nprobes):
    kind = spec["kind"]
    pairs = list(COMMON)
    if kind in ("frame", "model"):
        pairs += FRAME_ONLY
    if kind == "model":
        pairs += MODEL_ONLY
    if kind == "series":
        pairs += SERIES_ONLY
    name = draw(_weighted(pairs))
    op = {"op": name}
    if name in ("validate", "component_validate", "index_validate", "coerce_dtype", "get_dtypes"):
        op["probe"] = draw(st.integers(0, nprobes - 1))
    if name in ("validate", "component_validate", "index_validate"):
        op["lazy"] = draw(st.booleans())
    if name == "validate":
        op["via"] = draw(st.sampled_from(["validate", "validate", "call"]))
    if name in ("component_validate", "remove_columns", "update_column", "update_columns", "rename_columns",
                "select_columns", "set_index", "component_update_checks"):
        op["col"] = draw(st.integers(0, 2))
    if name == "update_column" or name == "update_columns":
        op["prop"] = draw(st.sampled_from(["nullable", "coerce", "unique", "checks", "dtype"]))
    if name in ("draw", "example", "model_example"):
        op["size"] = draw(st.integers(0, 3))
    if name == "reset_index":
        op["level"] = draw(st.sampled_from(["all", "all", "first", "empty"]))
        op["drop"] = draw(st.booleans())
    if name == "set_index":
        op["append"] = draw(st.booleans())
        op["drop"] = draw(st.booleans())
    if name in ("add_columns", "remove_columns", "update_column", "update_columns", "rename_columns", "select_columns",
                "set_index", "reset_index", "component_update_checks", "update_checks"):
        # the returned schema is used (validated) and dropped; the receiver must not notice
        op["then_validate"] = draw(st.integers(0, nprobes - 1))
    if name == "copy":
        op["edit"] = draw(st.sampled_from([None, "name", "coerce"]))
    if name == "model_edit_returned":
        op["attr"] = draw(st.sampled_from(["strict", "coerce"]))
    return op


@st.composite
def history(draw, kinds=("frame",) * 6 + ("model",) * 2 + ("series",) * 2):
    kind = draw(st.sampled_from(kinds))
    spec = draw(schema_spec(kind))
    nprobes = draw(st.integers(2, 4))
    probes = [draw(probe_for(spec)) for _ in range(nprobes)]
    ops = draw(st.lists(op_for(spec, nprobes), min_size=2, max_size=12))
    return {"schema": spec, "probes": probes, "ops": ops}
