"""C06 family `faults`: an exception injected at the k-th invocation of a user callback, for every k."""
from __future__ import annotations

import json

from hypothesis import strategies as st

from .. import fp, known, spec as sp
from ..core import Eval, Family


class InjectedFault(Exception):
    """harness-private exception type"""


class _Injector:
    def __init__(self):
        self.reset()

    def reset(self, fault_at=None, exc="InjectedFault"):
        self.count = 0
        self.kinds = []
        self.fault_at = fault_at
        self.exc = exc
        self.raised = None

    def tick(self, kind):
        self.count += 1
        self.kinds.append(kind)
        if self.fault_at is not None and self.count == self.fault_at:
            if self.exc == "SchemaError":
                # a user callback that validates something itself (nested schema.validate) fails with pandera's own
                # error type, built by user code: no reason code
                import pandera.errors as pe

                e = pe.SchemaError(None, None, f"injected at {self.count} ({kind})")
            elif self.exc == "NoArgs":  # exceptions need not carry a message ...
                e = InjectedFault()
            elif self.exc == "KeyError0":  # ... nor a string (a missing integer / tuple label, an errno)
                e = KeyError(0)
            elif self.exc == "KeyErrorTuple":
                e = KeyError(("a", self.count))
            elif self.exc == "OSError2":
                e = OSError(2, f"injected at {self.count} ({kind})")
            else:
                e = {"InjectedFault": InjectedFault, "KeyError": KeyError, "ZeroDivisionError": ZeroDivisionError,
                     "AttributeError": AttributeError}[self.exc](f"injected at {self.count} ({kind})")
            self.raised = (e, kind)
            raise e


INJ = _Injector()
_CUSTOM = {}


def custom_dtype():
    """A harness-private DataType registered through the documented extension API; coerce/check are wrapped."""
    if "cls" in _CUSTOM:
        return _CUSTOM["cls"]
    import dataclasses

    import pandas as pd
    from pandera import dtypes
    from pandera.engines import pandas_engine

    @pandas_engine.Engine.register_dtype
    @dtypes.immutable
    class HarnessInt(pandas_engine.INT64):
        """nullable Int64 whose coerce/check call back into the harness"""

        def coerce(self, data_container):
            INJ.tick("dtype.coerce")
            return super().coerce(data_container)

        def check(self, pandera_dtype, data_container=None):
            INJ.tick("dtype.check")
            return super().check(pandera_dtype, data_container)

        def __str__(self):
            return "HarnessInt"

    _CUSTOM["cls"] = HarnessInt
    return HarnessInt


def build(fs):
    """fault-schema spec -> pandera DataFrameSchema whose callbacks tick the injector."""
    import pandera as pa

    def check(cs, level):
        lo = cs.get("lo", 0)
        k = cs["kind"]
        name = f"{level}:{k}"
        kw = {}
        if cs.get("raise_warning"):
            kw["raise_warning"] = True
        if k == "vec":
            def f(s, lo=lo):
                INJ.tick("check." + name)
                return s >= lo
            return pa.Check(f, name=name, **kw)
        if k == "elem":
            def f(x, lo=lo):
                INJ.tick("check." + name)
                return x >= lo
            return pa.Check(f, element_wise=True, name=name, **kw)
        if k == "scalar":
            def f(s, lo=lo):
                INJ.tick("check." + name)
                return bool((s >= lo).all())
            return pa.Check(f, name=name, **kw)
        if k == "frame-vec":
            def f(df, lo=lo):
                INJ.tick("check." + name)
                return df["a"] >= lo
            return pa.Check(f, name=name, **kw)
        if k == "frame-row":
            def f(row, lo=lo):
                INJ.tick("check." + name)
                return row["a"] >= lo
            return pa.Check(f, element_wise=True, name=name, **kw)
        if k == "groupby-str":
            def f(groups, lo=lo):
                INJ.tick("check." + name)
                return all((g >= lo).all() for g in groups.values())
            return pa.Check(f, groupby="g", name=name, **kw)
        if k == "groupby-fn":
            def gb(df):
                INJ.tick("groupby." + name)
                return df.groupby("g")

            def f(groups, lo=lo):
                INJ.tick("check." + name)
                return all((g >= lo).all() for g in groups.values())
            return pa.Check(f, groupby=gb, name=name, **kw)
        raise ValueError(k)

    def parser(ps, level):
        k = ps["kind"]
        if k == "col-abs":
            def p(s):
                INJ.tick(f"parser.{level}:abs")
                return s.abs()
            return pa.Parser(p, name="abs")
        if k == "col-elem":
            def p(x):
                INJ.tick(f"parser.{level}:elem")
                return x
            return pa.Parser(p, element_wise=True, name="elem")
        if k == "frame-id":
            def p(df):
                INJ.tick(f"parser.{level}:id")
                return df
            return pa.Parser(p, name="id")
        raise ValueError(k)

    cols = {}
    for c in fs["columns"]:
        dtype = custom_dtype()() if c.get("custom_dtype") else c.get("dtype")
        cols[c["name"]] = pa.Column(dtype, checks=[check(x, "col-" + c["name"]) for x in c.get("checks", [])],
                                    parsers=[parser(x, "col-" + c["name"]) for x in c.get("parsers", [])],
                                    coerce=c.get("coerce", False), nullable=c.get("nullable", False),
                                    regex=c.get("regex", False), required=c.get("required", True))
    index = None
    if fs.get("index_checks") is not None:
        index = pa.Index("int64", checks=[check(x, "index") for x in fs["index_checks"]])
    return pa.DataFrameSchema(cols, checks=[check(x, "frame") for x in fs.get("frame_checks", [])],
                              parsers=[parser(x, "frame") for x in fs.get("frame_parsers", [])],
                              index=index, coerce=fs.get("coerce", False), strict=fs.get("strict", False),
                              dtype=fs.get("schema_dtype"), name=fs.get("name"))


def frame(ft):
    import pandas as pd

    d = {}
    for name, cells in ft["columns"].items():
        d[name] = cells
    df = pd.DataFrame(d)
    if "a" in df and ft.get("a_as_str"):
        df["a"] = df["a"].astype(str)
    if "index" in ft:
        df.index = pd.Index(ft["index"])
    return df


@st.composite
def strategy(draw):
    n = draw(st.integers(1, 3))
    ints = st.integers(-2, 3)
    a = draw(st.lists(ints, min_size=n, max_size=n))
    b = draw(st.lists(ints, min_size=n, max_size=n))
    g = draw(st.lists(st.sampled_from(["x", "y"]), min_size=n, max_size=n))
    ck = lambda kinds: st.fixed_dictionaries({"kind": st.sampled_from(kinds), "lo": st.integers(-3, 2)},  # noqa: E731
                                             optional={"raise_warning": st.booleans()})
    col_a = {"name": "a", "dtype": "int64",
             "checks": draw(st.lists(ck(["vec", "elem", "scalar", "groupby-str", "groupby-fn"]), min_size=0, max_size=3)),
             "parsers": [], "coerce": draw(st.booleans())}
    has_groupby = any(c["kind"].startswith("groupby") for c in col_a["checks"])
    if not has_groupby and draw(st.booleans()):
        col_a["parsers"] = draw(st.lists(st.fixed_dictionaries({"kind": st.sampled_from(["col-abs", "col-elem"])}), min_size=1, max_size=2))
    if draw(st.integers(0, 2)) == 0:
        col_a["custom_dtype"] = True
        col_a["coerce"] = True
    col_b = {"name": "b" if draw(st.integers(0, 3)) else "^b", "dtype": "int64",
             "checks": draw(st.lists(ck(["vec", "elem"]), min_size=0, max_size=2)), "parsers": [],
             "coerce": draw(st.booleans())}
    if col_b["name"] == "^b":
        col_b["regex"] = True
    fs = {"columns": [col_a, col_b, {"name": "g", "dtype": None, "checks": [], "parsers": []}],
          "frame_checks": draw(st.lists(ck(["frame-vec", "frame-row", "scalar-frame"][:2]), min_size=0, max_size=2)),
          "frame_parsers": draw(st.lists(st.fixed_dictionaries({"kind": st.just("frame-id")}), min_size=0, max_size=1)),
          "index_checks": draw(st.one_of(st.none(), st.lists(ck(["vec", "elem"]), min_size=1, max_size=1))),
          "coerce": draw(st.integers(0, 3)) == 0}
    if draw(st.integers(0, 5)) == 0:
        fs["schema_dtype"] = "int64"
        fs["columns"] = [c for c in fs["columns"] if c["name"] != "g"]
        for c in fs["columns"]:
            c["checks"] = [x for x in c["checks"] if not x["kind"].startswith("groupby")]
    ft = {"columns": {"a": a, "b": b}}
    if any(c["name"] == "g" for c in fs["columns"]):
        ft["columns"]["g"] = g
    if col_a["coerce"] and draw(st.booleans()):
        ft["a_as_str"] = True
    if draw(st.booleans()):
        ft["index"] = draw(st.lists(ints, min_size=n, max_size=n))
    return {"schema": fs, "table": ft, "excs": draw(st.sampled_from([["InjectedFault"], ["InjectedFault", "KeyError"],
                                                                      ["ZeroDivisionError"], ["AttributeError"], ["SchemaError"], ["SchemaError"],
                                                                      ["NoArgs", "KeyError0"], ["OSError2", "KeyErrorTuple"]]))}


def _state(schema, data):
    return fp.fp_json(schema), json.dumps(fp.config_state(), sort_keys=True), json.dumps(fp.snapshot(data), sort_keys=True, default=repr)


def evaluate(case):
    from pandera import config

    ev = Eval()
    config.reset_config_context()
    schema = build(case["schema"])
    data = frame(case["table"])
    s0 = _state(schema, data)
    executions = 0
    clean = {}
    for lazy in (False, True):
        INJ.reset()
        o = fp.outcome(lambda: schema.validate(data, lazy=lazy))
        executions += 1
        clean[lazy] = (o, INJ.count, list(INJ.kinds))
        if o["kind"] == "internal":
            ev.add(f"clean-run-internal:{o['exc_type']}@{o['where']}", {"msg": o["msg"][:200], "lazy": lazy})
        if _state(schema, data) != s0:
            ev.add("clean-run-changes-state:" + o["kind"], _diff(s0, _state(schema, data)))
            schema = build(case["schema"])
            data = frame(case["table"])
            s0 = _state(schema, data)
    n = clean[False][1]
    ev.labels.append(f"callback-invocations={min(n, 12) if n < 12 else '12+'}")
    kinds_seen = set()
    window_hits = 0
    for lazy in (False, True):
        o_clean, N, kinds = clean[lazy]
        for k in range(1, N + 1):
            for exc in case.get("excs", ["InjectedFault"]):
                INJ.reset(fault_at=k, exc=exc)
                o = fp.outcome(lambda: schema.validate(data, lazy=lazy))
                executions += 1
                if INJ.raised is None:
                    continue  # the k-th invocation was not reached (an earlier data-dependent path changed)
                err, kind = INJ.raised
                cb = kind.split(".")[0]  # check | groupby | parser | dtype
                kinds_seen.add(cb)
                if k > 1:
                    window_hits += 1
                mode = "lazy" if lazy else "eager"
                if o["kind"] == "ok":
                    if cb == "check" and not _warning_only(case, kind):
                        ev.add(f"raising-check-callback-accepted:{mode}", {"k": k, "callback": kind, "exc": exc})
                elif o["kind"] in ("SchemaError", "SchemaErrors"):
                    if o.get("exc") is err and cb != "check":
                        pass  # the injected (pandera-typed) exception itself propagates from a non-check callback: accepted
                    elif (o["kind"] == "SchemaErrors") != lazy:
                        ev.add(f"wrong-error-class:{mode}:{o['kind']}", {"k": k, "callback": kind})
                    failed_check = {"CHECK_ERROR"} | ({"DATAFRAME_CHECK"} if exc == "SchemaError" else set())
                    if cb == "check" and not (failed_check & set(o.get("reasons", []))) and (lazy or o_clean["kind"] == "ok"):
                        # (eager: another, legitimately failing constraint may be the one that is raised first)
                        ev.add(f"raising-check-not-reported-as-CHECK_ERROR:{mode}", {"k": k, "callback": kind, "reasons": o.get("reasons")})
                elif o["kind"] == "internal" and o.get("exc") is not err and _raised_in_user_callback(o.get("exc")):
                    # a *different* user callback failed on the data left behind by the first fault (e.g. a parser
                    # fed uncoerced values): still a user-callback exception, accepted for non-check callbacks
                    if _callback_kind_of(o.get("exc")) == "check":
                        ev.add(f"check-callback-exception-leaks:{mode}:secondary", {"k": k, "callback": kind, "exc": exc})
                elif o["kind"] == "internal":
                    same = o.get("exc") is err
                    if cb == "check":
                        ev.add(f"check-callback-exception-leaks:{mode}:{kind.split(':')[-1]}", {"k": k, "callback": kind, "exc": exc,
                                                                                                  "propagated_same_object": same, "where": o["where"]})
                    elif not same:
                        ev.add(f"callback-fault-turns-into-other-exception:{mode}:{cb}:{o['exc_type']}@{o['where']}",
                               {"k": k, "callback": kind, "exc": exc, "msg": o["msg"][:160]})
                elif o["kind"] == "usage":
                    ev.add(f"callback-fault-reported-as-usage-error:{mode}:{cb}", {"k": k, "callback": kind, "type": o["exc_type"]})
                s1 = _state(schema, data)
                if s1 != s0:
                    d = _diff(s0, s1)
                    ev.add(f"state-not-restored-after-fault:{cb}:{d['part']}", dict(d, k=k, callback=kind, lazy=lazy, exc=exc))
                    config.reset_config_context()
                    schema = build(case["schema"])
                    data = frame(case["table"])
                    s0 = _state(schema, data)
    for cb in sorted(kinds_seen):
        ev.labels.append("fault-in:" + cb)
    ev.executions = executions
    ev.nontrivial = window_hits > 0 and len(kinds_seen) >= 1
    return ev


def _user_frame(e):
    """The harness callback frame (if any) that sits below the last pandera frame of the traceback."""
    tb = getattr(e, "__traceback__", None)
    frames = []
    while tb is not None:
        frames.append(tb.tb_frame.f_code)
        tb = tb.tb_next
    last_pandera = max((i for i, c in enumerate(frames) if "/pandera/" in c.co_filename), default=-1)
    for c in frames[last_pandera + 1:]:
        if c.co_filename.endswith("c06_faults.py"):
            return c
    return None


def _raised_in_user_callback(e):
    return _user_frame(e) is not None


def _callback_kind_of(e):
    c = _user_frame(e)
    name = c.co_name if c else ""
    return "parser" if name == "p" else "groupby" if name == "gb" else "check" if name == "f" else "dtype"


def _warning_only(case, kind):
    level, k = kind.split(".", 1)[1].rsplit(":", 1)
    allc = []
    for c in case["schema"]["columns"]:
        allc += [(f"col-{c['name']}", x) for x in c.get("checks", [])]
    allc += [("frame", x) for x in case["schema"].get("frame_checks", [])]
    allc += [("index", x) for x in (case["schema"].get("index_checks") or [])]
    return any(lv == level and x["kind"] == k and x.get("raise_warning") for lv, x in allc)


def _diff(a, b):
    part = "schema" if a[0] != b[0] else "config" if a[1] != b[1] else "data"
    i = {"schema": 0, "config": 1, "data": 2}[part]
    return {"part": part, "diff": fp.fp_diff(json.loads(a[i]), json.loads(b[i]))[:4]}


FAMILIES = [
    Family("faults", evaluate, strategy=strategy, n_quick=80, n_thorough=400, shards_quick=4, shards_thorough=16,
           required_labels=["fault-in:check", "fault-in:parser", "fault-in:groupby", "fault-in:dtype"]),
]


@known.finding("C06/user-raised-SchemaError-without-reason-code-in-parser-or-dtype")
def _kf_user_schema_error(family, case, disc):
    d = disc.detail if isinstance(disc.detail, dict) else {}
    parts = disc.kind.split(":")
    return (family == "faults" and parts[0] == "callback-fault-turns-into-other-exception" and d.get("exc") == "SchemaError"
            and parts[2] in ("parser", "dtype") and parts[3] == "KeyError@validation_depth.py" and parts[-1] == "validation_type")
