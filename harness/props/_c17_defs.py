"""DataFrameModel definitions used by C17 (no postponed annotations in this module)."""
from typing import Optional, Union

import pandera as pa
from pandera.typing import DataFrame


class M(pa.DataFrameModel):
    a: int = pa.Field(gt=0)


class Mc(pa.DataFrameModel):
    a: int = pa.Field(gt=0)

    class Config:
        coerce = True


class M2(pa.DataFrameModel):
    a: int = pa.Field(lt=0)


MODELS = {"M": M, "Mc": Mc, "M2": M2}

# annotation tag -> (annotation object, [model names tried in order], optional?)
ANNOTATIONS = {
    "M": (DataFrame[M], ["M"], False),
    "Mc": (DataFrame[Mc], ["Mc"], False),
    "M2": (DataFrame[M2], ["M2"], False),
    "OptM": (Optional[DataFrame[M]], ["M"], True),
    "OptMc": (Optional[DataFrame[Mc]], ["Mc"], True),
    "UnionMM2": (Union[DataFrame[M], DataFrame[M2]], ["M", "M2"], False),
}
