"""DataFrameModel definitions used by C17 (no postponed annotations in this module)."""
from typing import Annotated, Optional, Union

import pandera as pa
from pandera.typing import DataFrame


class M(pa.DataFrameModel):
    a: int = pa.Field(gt=0)


class Mc(pa.DataFrameModel):
    a: int = pa.Field(gt=0)

    class Config:
        coerce = True


class M2(pa.DataFrameModel):
    a: int = pa.Field(lt=0)


MODELS = {"M": M, "Mc": Mc, "M2": M2}

# annotation tag -> (annotation object, [model names tried in order], optional?)
ANNOTATIONS = {
    "M": (DataFrame[M], ["M"], False),
    "Mc": (DataFrame[Mc], ["Mc"], False),
    "M2": (DataFrame[M2], ["M2"], False),
    "OptM": (Optional[DataFrame[M]], ["M"], True),
    "OptMc": (Optional[DataFrame[Mc]], ["Mc"], True),
    "UnionMM2": (Union[DataFrame[M], DataFrame[M2]], ["M", "M2"], False),
    # the same annotations spelled with a forward reference inside / with metadata around
    "OptMq": (Optional["DataFrame[M]"], ["M"], True),
    "OptMcq": (Optional["DataFrame[Mc]"], ["Mc"], True),
    "AnnM": (Annotated[DataFrame[M], "some metadata"], ["M"], False),
}

# names the forward references resolve against (globals of the generated functions)
FORWARD_NAMES = {"DataFrame": DataFrame, "M": M, "Mc": Mc, "M2": M2, "Optional": Optional, "Union": Union}
