"""C01 - validation verdict equals the declared schema semantics (pandas).

Oracle: accept_pandera(S, D) == ref_validate(spec, table).accept in both directions, eager and
lazy; on accept the returned object equals the input (minus columns dropped by strict='filter').
"""
from __future__ import annotations

from hypothesis import strategies as st

from .. import fp, gen, known, refmodel, spec as sp
from ..core import Eval, Family

PROPERTY = "C01"
LEVEL = "exploration"
RULE = (
    "Hypothesis: a table is drawn from small value pools, a schema is derived from the data with check arguments on/"
    "next to the observed min/max/value set, then presence/order/dtype/label/index mutators are applied (harness/gen.py). "
    "Non-trivial: the schema carries >=2 different constraint kinds and the reference verdict is accept or a rejection "
    "caused by at most 2 violated constraints (i.e. within two mutations of the accept/reject boundary). "
    "Distinct = hash of the canonical JSON case."
)
ASSUMPTIONS = [
    "reference model harness/refmodel.py implements the documented semantics; conventions the docs leave open "
    "(nulls equal for uniqueness, int64~Int64 dtype equivalence, element-wise str dtype) follow DESIGN.md §6",
    "cases on which the documented semantics is undefined (string checks on non-string data, ignore_na=False on "
    "extension-array nulls, joint uniqueness over duplicated labels) are skipped and counted",
    "internal (non-pandera) exceptions are C06's subject: counted here, not scored as verdicts",
]


def constraint_kinds(spec):
    kinds = set()
    for c in spec["columns"]:
        if c.get("dtype"):
            kinds.add("dtype")
        if not c.get("nullable"):
            kinds.add("nullable")
        if c.get("unique"):
            kinds.add("unique")
        if c.get("regex"):
            kinds.add("regex")
        if not c.get("required", True):
            kinds.add("optional")
        for ch in c.get("checks", []):
            kinds.add("check:" + ch["kind"])
    for k in ("strict", "ordered", "unique", "unique_column_names", "checks"):
        if spec.get(k):
            kinds.add("frame:" + k)
    if spec.get("index"):
        kinds.add("index" if "multi" not in spec["index"] else "multiindex")
    return kinds


def build(case):
    spec, table = case["spec"], case["table"]
    schema = sp.pandas_schema(spec)
    if spec.get("kind") == "series":
        data = sp.pandas_series(table)
    else:
        data = sp.pandas_frame(table)
    return schema, data


def expected_output_snapshot(case, data, ref):
    if ref.filtered_columns:
        il = case["table"].get("int_labels")
        data = data.drop(columns=[sp._lab(x, il) for x in dict.fromkeys(ref.filtered_columns)])
    return fp.snapshot(data)


def evaluate(case):
    ev = Eval()
    spec, table = case["spec"], case["table"]
    try:
        ref = refmodel.ref_validate(spec, table)
    except refmodel.Undefined as e:
        ev.skipped = "undefined:" + str(e).split(" on ")[0][:40]
        return ev
    schema, data = build(case)
    kinds = constraint_kinds(spec)
    ev.labels.append("kind=" + spec.get("kind", "dataframe"))
    if spec.get("int_labels"):
        ev.labels.append("int-labels")
    ev.labels.append("ref=" + ("accept" if ref.accept else "reject"))
    for r in ref.reasons:
        ev.labels.append("reason=" + r)
    for k in kinds:
        ev.labels.append("has:" + k.split(":")[0] if k.startswith("check:") else "has:" + k)
    ev.nontrivial = len(kinds) >= 2 and len(ref.errors) <= 2
    uq = spec.get("unique") or []
    if uq and not all(isinstance(x, str) for x in uq):
        tn = [t["name"] for t in table["columns"]]
        ev.labels.append("nested:sets=%d" % len(uq))
        if not any(x in tn for x in uq[0]) and any(x in tn for g in uq[1:] for x in g):
            ev.labels.append("nested:absent-set-first")
    before = fp.snapshot(data)
    for lazy in (False, True):
        o = fp.outcome(lambda: schema.validate(data, lazy=lazy))
        mode = "lazy" if lazy else "eager"
        if o["kind"] == "internal":
            ev.labels.append("internal-outcome")
            continue
        if o["kind"] == "usage":
            ev.add(f"usage-error-on-valid-call:{mode}", {"type": o["exc_type"], "msg": o["msg"]})
            continue
        accepted = o["kind"] == "ok"
        if accepted != ref.accept:
            if ref.accept:
                ev.add(f"rejects-conforming-data:{mode}:" + "+".join(o.get("reasons", [])),
                       {"pandera": o.get("reasons"), "msg": str(o.get("exc"))[:300]})
            else:
                ev.add(f"accepts-violating-data:{mode}:" + "+".join(ref.reasons),
                       {"reference_errors": [e.key() for e in ref.errors]})
        elif accepted:
            try:
                got = fp.snapshot(o["value"])
                want = expected_output_snapshot(case, data, ref)
            except Exception as e:
                ev.add(f"returned-object-not-comparable:{mode}", {"type": type(o["value"]).__name__, "err": repr(e)[:200]})
                continue
            if got != want:
                ev.add(f"returned-object-differs-from-input:{mode}", {"diff": fp.fp_diff(want, got)})
    if fp.snapshot(data) != before:
        ev.labels.append("input-mutated")  # C04's subject; counted here
    return ev


# ------------------------------------------------------------------ string checks on a grid of small arguments


def strat_strings():
    """One str / object / string column over a pool with the empty string, multi-byte characters and nulls; 1-2 string
    checks whose arguments are enumerated from small grids (every None / 0 / 1 combination of str_length bounds, empty
    prefixes, anchored and unanchored patterns): the main generator reaches these boundary arguments too rarely."""
    from hypothesis import strategies as st

    pool = ["", "a", "b", "ab", "ba", "abc", "aab", "\u00e9", "a\u00e9", "\u00e9\u00e9b", " ", "A", "AB", "Ab", "a\nb", "b\n"]
    bound = st.sampled_from([None, 0, 0, 1, 2, 3])

    @st.composite
    def check(draw):
        k = draw(st.sampled_from(["str_length", "str_length", "str_startswith", "str_endswith", "str_matches", "str_contains",
                                  "equal_to", "isin", "notin"]))
        if k == "str_length":
            lo, hi = draw(bound), draw(bound)
            if lo is None and hi is None:
                hi = 0
            if lo is not None and hi is not None and lo > hi:
                lo, hi = hi, lo
            cs = {"kind": k, "args": {"min_value": lo, "max_value": hi}}
        elif k in ("str_startswith", "str_endswith"):
            cs = {"kind": k, "args": {"string": draw(st.sampled_from(["", "a", "ab", "b", "\u00e9", " "]))}}
        elif k in ("str_matches", "str_contains"):
            cs = {"kind": k, "args": {"pattern": draw(st.sampled_from(gen.PATTERNS + ["", "^$", "a|b", "\u00e9", ".*", "A", "AB", "a.b", "^b$"]))}}
            if draw(st.integers(0, 2)) == 0:  # compiled, with flags that matter for the data pool (case, newlines)
                pat, fl = draw(st.sampled_from([("a", ["IGNORECASE"]), ("ab", ["IGNORECASE"]), ("^(a|b)+$", ["IGNORECASE"]),
                                                ("a.b", ["DOTALL"]), ("^b$", ["MULTILINE"]), ("b$", ["MULTILINE"]),
                                                ("A", ["IGNORECASE", "MULTILINE"]), (cs["args"]["pattern"], [])]))
                cs["args"]["pattern"], cs["args"]["flags"] = pat, fl
        elif k == "equal_to":
            cs = {"kind": k, "args": {"value": draw(st.sampled_from(pool))}}
        else:
            vals = draw(st.lists(st.sampled_from(pool), min_size=0, max_size=3, unique=True))
            cs = {"kind": k, "args": {"allowed_values" if k == "isin" else "forbidden_values": vals}}
        r = draw(st.integers(0, 5))
        if r == 0 and k.startswith("str_"):
            cs["ignore_na"] = False
        return cs

    @st.composite
    def s(draw):
        n = draw(st.integers(0, 5))
        phys = draw(st.sampled_from(["object", "object", "string"]))
        cells = draw(st.lists(st.one_of(st.sampled_from(pool), st.sampled_from(pool), st.sampled_from(pool), st.none()),
                              min_size=n, max_size=n))
        series = draw(st.integers(0, 3)) == 0
        col = {"name": "s", "dtype": draw(st.sampled_from(["str", "str", "string" if phys == "string" else "object"])),
               "nullable": True, "unique": False, "required": True,
               "checks": draw(st.lists(check(), min_size=1, max_size=2))}
        if any(ch["args"].get("flags") for ch in col["checks"]):
            # cells on which the flags decide: other case, embedded / trailing newline
            cells = [draw(st.sampled_from(["A", "AB", "Ab", "aB", "a\nb", "b\n", "a\nB"])) if draw(st.booleans()) else c for c in cells]
        spec = {"kind": "series" if series else "dataframe", "columns": [col], "index": None, "strict": False, "ordered": False}
        case = {"spec": spec, "table": {"columns": [{"name": "s", "phys": phys, "cells": cells}], "index": None}}
        if draw(st.booleans()):
            # half of the pairs are made conforming (rows the reference rejects are taken out): a verdict only hinges on
            # one cell when every other cell passes
            try:
                ref = refmodel.ref_validate(spec, case["table"])
                bad = set(ref.bad_rows)
                if bad and len(bad) < len(cells) and all(e.rows is not None for e in ref.errors):
                    case["table"]["columns"][0]["cells"] = [c for i, c in enumerate(cells) if i not in bad]
            except refmodel.Undefined:
                pass
        return case
    return s()


# ----------------------------------------------------------- history: validate, edit in place, validate again


def _pd_scalar(phys, v):
    import pandas as pd

    if v is None:
        return {"float64": float("nan"), "float32": float("nan"), "datetime64[ns]": pd.NaT, "Int64": pd.NA, "string": pd.NA}.get(phys)
    if phys == "datetime64[ns]":
        return pd.Timestamp(sp.day(v))
    return v


def strat_revalidate():
    from hypothesis import strategies as st
    import copy

    @st.composite
    def s(draw):
        base = draw(gen.case_strategy(allow_dup_labels=False))
        case = copy.deepcopy(gen.repair(base))
        table = case["table"]
        n = sp.table_nrows(table)
        edits = []
        if n and table["columns"]:
            for _ in range(draw(st.integers(1, 2))):
                j = draw(st.integers(0, len(table["columns"]) - 1))
                i = draw(st.integers(0, n - 1))
                phys = table["columns"][j]["phys"]
                vals = st.sampled_from(gen._pool(phys))
                if gen._nullable_phys(phys):
                    vals = st.one_of(vals, vals, st.none())
                edits.append({"col": j, "row": i, "value": draw(vals)})
        case["edits"] = edits
        case["first"] = draw(st.sampled_from(["copy", "copy", "inplace"]))
        case["lazy"] = draw(st.booleans())
        return case
    return s()


def eval_revalidate(case):
    """The verdict on an object depends on its current content only: an accepted object that is edited in place is
    judged again on what it now holds (a result remembered per object / per attached schema would be stale)."""
    import copy

    ev = Eval()
    spec, table = case["spec"], case["table"]
    table2 = copy.deepcopy(table)
    for e in case["edits"]:
        table2["columns"][e["col"]]["cells"][e["row"]] = e["value"]
    try:
        ref1 = refmodel.ref_validate(spec, table)
        ref2 = refmodel.ref_validate(spec, table2)
    except refmodel.Undefined as e:
        ev.skipped = "undefined:" + str(e).split(" on ")[0][:40]
        return ev
    if not ref1.accept:
        ev.skipped = "repair did not reach a conforming table"
        return ev
    if ref1.filtered_columns:
        ev.skipped = "strict='filter' drops columns (edits address the input's column positions)"
        return ev
    schema, data = build(case)
    series = spec.get("kind") == "series"
    ev.labels += ["kind=" + spec.get("kind", "dataframe"), "first=" + case["first"], "ref2=" + ("accept" if ref2.accept else "reject")]
    ev.nontrivial = bool(case["edits"]) and not ref2.accept
    lazy = bool(case.get("lazy"))
    o1 = fp.outcome(lambda: schema.validate(data, lazy=lazy, inplace=case["first"] == "inplace"))
    if o1["kind"] != "ok":
        ev.labels.append("first-validation-not-ok")  # the frames family scores this
        return ev
    obj = o1["value"]
    try:
        for e in case["edits"]:
            v = _pd_scalar(table["columns"][e["col"]]["phys"], e["value"])
            if series:
                obj.iloc[e["row"]] = v
            else:
                obj.iloc[e["row"], e["col"]] = v
        want, got = fp.snapshot(sp.pandas_series(table2) if series else sp.pandas_frame(table2)), fp.snapshot(obj)
        if (got["cells"], got.get("dtypes", got.get("dtype"))) != (want["cells"], want.get("dtypes", want.get("dtype"))):
            raise ValueError("edit changed the physical type")
    except Exception as e:
        ev.skipped = "in-place edit not expressible: " + type(e).__name__
        return ev
    for lz in (lazy, not lazy):
        o2 = fp.outcome(lambda: schema.validate(obj, lazy=lz))
        mode = "lazy" if lz else "eager"
        if o2["kind"] in ("internal", "usage"):
            ev.labels.append("internal-outcome")
            continue
        if (o2["kind"] == "ok") != ref2.accept:
            if ref2.accept:
                ev.add(f"revalidation-rejects-conforming-edit:{mode}:" + "+".join(o2.get("reasons", [])),
                       {"edits": case["edits"], "msg": str(o2.get("exc"))[:300]})
            else:
                ev.add(f"revalidation-accepts-violating-edit:{mode}:" + "+".join(ref2.reasons),
                       {"edits": case["edits"], "first": case["first"], "reference_errors": [x.key() for x in ref2.errors][:4]})
    return ev


# ------------------------------------------------------------------ several joint-uniqueness constraints


@st.composite
def strat_nested_unique(draw):
    """DataFrameSchema(unique=[[...], [...]]): several column sets, each of which has to be jointly unique.  Sets may
    name optional columns that are absent from the data (nothing to compare for such a set; the others still apply)."""
    import copy

    case = copy.deepcopy(draw(gen.repaired_case()))
    spec = case["spec"]
    if spec.get("kind", "dataframe") != "dataframe":
        return case
    tnames = [t["name"] for t in case["table"]["columns"]]
    plain = [c["name"] for c in spec["columns"] if not c.get("regex")]
    if draw(st.booleans()) and "zq" not in plain and "zq" not in tnames:
        spec["columns"].append({"name": "zq", "dtype": None, "nullable": True, "unique": False, "checks": [],
                                "required": False})
        plain.append("zq")
    present = [n for n in plain if n in tnames and tnames.count(n) == 1]
    absent = [n for n in plain if n not in tnames]
    if not present:
        return case
    groups = []
    for _ in range(draw(st.integers(2, 3))):
        pool = draw(st.sampled_from([present, present, absent or present, present + absent]))
        k = draw(st.integers(1, min(2, len(pool))))
        groups.append(list(draw(st.permutations(pool)))[:k])
    spec["unique"] = groups
    return case


# ---------------------------------------------------------------------------------- frame_na


_FLOATS = [-1.0, 0.0, 0.5, 1.0, 1.5, 2.0, 3.0]


@st.composite
def strat_frame_na(draw):
    """float frames with nulls under ONE dataframe-level built-in check with ignore_na=False: a null cell is shown to the
    check and compares False, so it decides the verdict like any violating cell (half of the cases: the non-null cells all
    satisfy the check, so only the nulls can reject)."""
    n = draw(st.integers(1, 5))
    names = list(draw(st.permutations(["a", "b", "c"])))[: draw(st.integers(1, 3))]
    null_rate = draw(st.sampled_from([0, 1, 1, 2]))
    cols = []
    for nm in names:
        cells = [None if draw(st.integers(0, 5)) < null_rate else draw(st.sampled_from(_FLOATS)) for _ in range(n)]
        cols.append({"name": nm, "phys": "float64", "cells": cells})
    vals = [c for t in cols for c in t["cells"] if c is not None] or [0.0]
    lo, hi = min(vals), max(vals)
    satisfied = draw(st.booleans())
    kind = draw(st.sampled_from(["greater_than_or_equal_to", "less_than_or_equal_to", "greater_than", "less_than", "in_range",
                                 "isin", "equal_to"]))
    arg = st.sampled_from(_FLOATS)
    if kind in ("greater_than_or_equal_to", "greater_than"):
        args = {"min_value": (lo if kind.endswith("equal_to") else lo - 1) if satisfied else draw(arg)}
    elif kind in ("less_than_or_equal_to", "less_than"):
        args = {"max_value": (hi if kind.endswith("equal_to") else hi + 1) if satisfied else draw(arg)}
    elif kind == "in_range":
        a, b = (lo, hi) if satisfied else sorted([draw(arg), draw(arg)])
        args = {"min_value": a, "max_value": b, "include_min": True, "include_max": True}
    elif kind == "isin":
        args = {"allowed_values": sorted(set(vals)) if satisfied else sorted(set(draw(st.lists(arg, min_size=1, max_size=3))))}
    else:
        args = {"value": vals[0] if satisfied and len(set(vals)) == 1 else draw(arg)}
    declared = draw(st.booleans())  # with or without (nullable, check-free) column declarations
    spec = {"kind": "dataframe", "index": None, "strict": False, "ordered": False,
            "columns": [{"name": nm, "dtype": "float64", "nullable": True, "unique": False, "checks": [], "required": True}
                        for nm in names] if declared else [],
            "checks": [{"kind": kind, "args": args, "ignore_na": False}]}
    return {"spec": spec, "table": {"columns": cols, "index": None}}


def _holds(kind, args, v):
    if kind == "greater_than_or_equal_to":
        return v >= args["min_value"]
    if kind == "greater_than":
        return v > args["min_value"]
    if kind == "less_than_or_equal_to":
        return v <= args["max_value"]
    if kind == "less_than":
        return v < args["max_value"]
    if kind == "in_range":
        return args["min_value"] <= v <= args["max_value"]
    if kind == "isin":
        return v in args["allowed_values"]
    return v == args["value"]


def eval_frame_na(case):
    ev = Eval()
    spec, table = case["spec"], case["table"]
    cs = spec["checks"][0]
    cells = [c for t in table["columns"] for c in t["cells"]]
    nulls = sum(1 for c in cells if c is None)
    bad = sum(1 for c in cells if c is not None and not _holds(cs["kind"], cs["args"], c))
    want_accept = nulls == 0 and bad == 0
    ev.labels += ["check=" + cs["kind"], "nulls=" + ("yes" if nulls else "no"), "ref=" + ("accept" if want_accept else "reject"),
                  "declared=" + ("yes" if spec["columns"] else "no")]
    if nulls and not bad:
        ev.labels.append("only-nulls-reject")
    ev.nontrivial = bool(nulls) and not bad or want_accept
    schema, data = sp.pandas_schema(spec), sp.pandas_frame(table)
    for lazy in (False, True):
        mode = "lazy" if lazy else "eager"
        o = fp.outcome(lambda: schema.validate(data, lazy=lazy))
        if o["kind"] in ("internal", "usage"):
            ev.labels.append("internal-exception")
            continue
        accepted = o["kind"] == "ok"
        if accepted != want_accept:
            ev.add(("accepts-violating-data" if accepted else "rejects-conforming-data") + f":{mode}:frame-check-ignore_na-false",
                   {"check": cs, "nulls": nulls, "violating_non_null_cells": bad, "reasons": o.get("reasons")})
    return ev


# ---------------------------------------------------------------------------- series_aggregate


@st.composite
def strat_series_aggregate(draw):
    """SeriesSchema / Index entry, nullable=True, nulls in the data, one check on the values as a whole
    (unique_values_eq) or element by element: nulls are ignored whichever entry point runs the check."""
    phys = draw(st.sampled_from(["float64", "object"]))
    pool = [0.5, 1.0, 1.5, 2.0] if phys == "float64" else ["a", "b", "ab"]
    n = draw(st.integers(2, 5))
    cells = [draw(st.sampled_from(pool)) for _ in range(n)]
    for i in sorted(draw(st.sets(st.integers(0, n - 1), min_size=1, max_size=2))):
        cells[i] = None
    vals = sorted({c for c in cells if c is not None}) or [pool[0]]
    mode = draw(st.sampled_from(["uve-exact", "uve-exact", "uve-more", "uve-less", "elementwise"]))
    if mode == "uve-exact":
        cs = {"kind": "unique_values_eq", "args": {"values": vals}}
    elif mode == "uve-more":
        cs = {"kind": "unique_values_eq", "args": {"values": sorted(set(vals) | {pool[-1], pool[0]})}}
    elif mode == "uve-less":
        cs = {"kind": "unique_values_eq", "args": {"values": vals[:1]}}
    else:
        cs = {"kind": "isin", "args": {"allowed_values": vals}}
    dtype = "float64" if phys == "float64" else "str"
    field = {"dtype": dtype, "nullable": True, "unique": False, "checks": [cs], "name": None}
    where = draw(st.sampled_from(["series", "series", "index"]))
    if where == "series":
        spec = {"kind": "series", "columns": [field], "index": None}
        table = {"columns": [{"name": None, "phys": phys, "cells": cells}], "index": None}
    else:
        spec = {"kind": "dataframe", "columns": [{"name": "a", "dtype": "int64", "nullable": False, "unique": False, "checks": [],
                                                  "required": True}],
                "index": dict(field, name=None), "strict": False, "ordered": False}
        table = {"columns": [{"name": "a", "phys": "int64", "cells": list(range(n))}],
                 "index": {"name": None, "phys": phys, "cells": cells}}
    return {"spec": spec, "table": table, "series_aggregate": mode + ":" + where}


def eval_series_aggregate(case):
    ev = evaluate(case)
    ev.labels.append("mode=" + case["series_aggregate"].split(":")[0])
    ev.labels.append("entry=" + case["series_aggregate"].split(":")[1])
    return ev


FAMILIES = [
    Family("frames", evaluate, strategy=lambda: gen.repaired_case(), n_quick=1400, n_thorough=6000, shards_quick=4,
           shards_thorough=16,
           required_labels=["ref=accept", "ref=reject", "kind=series", "has:index", "has:regex", "has:frame:strict",
                            "has:frame:ordered", "has:unique", "has:check"]),
    Family("strings", evaluate, strategy=strat_strings, n_quick=600, n_thorough=3000, shards_quick=2, shards_thorough=8,
           required_labels=["ref=accept", "ref=reject", "has:check"]),
    Family("nested_unique", evaluate, strategy=strat_nested_unique, n_quick=500, n_thorough=3000, shards_quick=2,
           shards_thorough=8, required_labels=["reason=DUPLICATES", "ref=accept", "nested:absent-set-first"]),
    Family("int_labels", evaluate, strategy=lambda: gen.repaired_case().flatmap(gen.int_labelled), n_quick=500, n_thorough=3000,
           shards_quick=2, shards_thorough=8, required_labels=["ref=accept", "ref=reject", "has:regex", "int-labels"]),
    Family("series_aggregate", eval_series_aggregate, strategy=strat_series_aggregate, n_quick=200, n_thorough=1500, shards_quick=2,
           shards_thorough=6, required_labels=["ref=accept", "ref=reject", "entry=series", "entry=index", "mode=uve-exact"]),
    Family("frame_na", eval_frame_na, strategy=strat_frame_na, n_quick=300, n_thorough=2000, shards_quick=2, shards_thorough=6,
           required_labels=["only-nulls-reject", "ref=accept", "declared=no"]),
    Family("revalidate", eval_revalidate, strategy=strat_revalidate, n_quick=800, n_thorough=3000, shards_quick=3,
           shards_thorough=12, required_labels=["ref2=reject", "ref2=accept", "first=inplace", "kind=series"]),
]


def selftest():
    refmodel.selftest()
