"""C01 - validation verdict equals the declared schema semantics (pandas).

Oracle: accept_pandera(S, D) == ref_validate(spec, table).accept in both directions, eager and
lazy; on accept the returned object equals the input (minus columns dropped by strict='filter').
"""
from __future__ import annotations

from .. import fp, gen, known, refmodel, spec as sp
from ..core import Eval, Family

PROPERTY = "C01"
LEVEL = "exploration"
RULE = (
    "Hypothesis: a table is drawn from small value pools, a schema is derived from the data with check arguments on/"
    "next to the observed min/max/value set, then presence/order/dtype/label/index mutators are applied (harness/gen.py). "
    "Non-trivial: the schema carries >=2 different constraint kinds and the reference verdict is accept or a rejection "
    "caused by at most 2 violated constraints (i.e. within two mutations of the accept/reject boundary). "
    "Distinct = hash of the canonical JSON case."
)
ASSUMPTIONS = [
    "reference model harness/refmodel.py implements the documented semantics; conventions the docs leave open "
    "(nulls equal for uniqueness, int64~Int64 dtype equivalence, element-wise str dtype) follow DESIGN.md §6",
    "cases on which the documented semantics is undefined (string checks on non-string data, ignore_na=False on "
    "extension-array nulls, joint uniqueness over duplicated labels) are skipped and counted",
    "internal (non-pandera) exceptions are C06's subject: counted here, not scored as verdicts",
]


def constraint_kinds(spec):
    kinds = set()
    for c in spec["columns"]:
        if c.get("dtype"):
            kinds.add("dtype")
        if not c.get("nullable"):
            kinds.add("nullable")
        if c.get("unique"):
            kinds.add("unique")
        if c.get("regex"):
            kinds.add("regex")
        if not c.get("required", True):
            kinds.add("optional")
        for ch in c.get("checks", []):
            kinds.add("check:" + ch["kind"])
    for k in ("strict", "ordered", "unique", "unique_column_names", "checks"):
        if spec.get(k):
            kinds.add("frame:" + k)
    if spec.get("index"):
        kinds.add("index" if "multi" not in spec["index"] else "multiindex")
    return kinds


def build(case):
    spec, table = case["spec"], case["table"]
    schema = sp.pandas_schema(spec)
    if spec.get("kind") == "series":
        data = sp.pandas_series(table)
    else:
        data = sp.pandas_frame(table)
    return schema, data


def expected_output_snapshot(case, data, ref):
    if ref.filtered_columns:
        data = data.drop(columns=list(dict.fromkeys(ref.filtered_columns)))
    return fp.snapshot(data)


def evaluate(case):
    ev = Eval()
    spec, table = case["spec"], case["table"]
    try:
        ref = refmodel.ref_validate(spec, table)
    except refmodel.Undefined as e:
        ev.skipped = "undefined:" + str(e).split(" on ")[0][:40]
        return ev
    schema, data = build(case)
    kinds = constraint_kinds(spec)
    ev.labels.append("kind=" + spec.get("kind", "dataframe"))
    ev.labels.append("ref=" + ("accept" if ref.accept else "reject"))
    for r in ref.reasons:
        ev.labels.append("reason=" + r)
    for k in kinds:
        ev.labels.append("has:" + k.split(":")[0] if k.startswith("check:") else "has:" + k)
    ev.nontrivial = len(kinds) >= 2 and len(ref.errors) <= 2
    before = fp.snapshot(data)
    for lazy in (False, True):
        o = fp.outcome(lambda: schema.validate(data, lazy=lazy))
        mode = "lazy" if lazy else "eager"
        if o["kind"] == "internal":
            ev.labels.append("internal-outcome")
            continue
        if o["kind"] == "usage":
            ev.add(f"usage-error-on-valid-call:{mode}", {"type": o["exc_type"], "msg": o["msg"]})
            continue
        accepted = o["kind"] == "ok"
        if accepted != ref.accept:
            if ref.accept:
                ev.add(f"rejects-conforming-data:{mode}:" + "+".join(o.get("reasons", [])),
                       {"pandera": o.get("reasons"), "msg": str(o.get("exc"))[:300]})
            else:
                ev.add(f"accepts-violating-data:{mode}:" + "+".join(ref.reasons),
                       {"reference_errors": [e.key() for e in ref.errors]})
        elif accepted:
            try:
                got = fp.snapshot(o["value"])
                want = expected_output_snapshot(case, data, ref)
            except Exception as e:
                ev.add(f"returned-object-not-comparable:{mode}", {"type": type(o["value"]).__name__, "err": repr(e)[:200]})
                continue
            if got != want:
                ev.add(f"returned-object-differs-from-input:{mode}", {"diff": fp.fp_diff(want, got)})
    if fp.snapshot(data) != before:
        ev.labels.append("input-mutated")  # C04's subject; counted here
    return ev


FAMILIES = [
    Family("frames", evaluate, strategy=lambda: gen.repaired_case(), n_quick=700, n_thorough=6000, shards_quick=4,
           shards_thorough=16,
           required_labels=["ref=accept", "ref=reject", "kind=series", "has:index", "has:regex", "has:frame:strict",
                            "has:frame:ordered", "has:unique", "has:check"]),
]


def selftest():
    refmodel.selftest()
