"""C19 helpers: predicate family (scalar / vectorised / polars forms of the same mathematical
predicate), data builders from JSON cells, value normalisation and the pure-Python reference.

Nothing in the reference part (``ref_*``) touches pandas/polars operations: it works on lists
of Python scalars.
"""
from __future__ import annotations


def is_null(x):
    if x is None:
        return True
    try:
        return bool(x != x)  # NaN (python / numpy float)
    except Exception:
        return False


def norm(v):
    """Normalise a cell coming out of pandas/polars/python for comparison (JSON-able)."""
    if v is None:
        return "<null>"
    item = getattr(v, "item", None)
    if item is not None and type(v).__module__.startswith("numpy"):
        try:
            v = v.item()
        except Exception:
            return repr(v)
    if isinstance(v, bool):
        return v
    if isinstance(v, float):
        if v != v:
            return "<null>"
        return int(v) if v == int(v) and abs(v) < 2 ** 53 else v
    if isinstance(v, (int, str)):
        return v
    r = repr(v)
    if r in ("<NA>", "NaT", "nan"):
        return "<null>"
    return r


def tkey(k):
    """Typed, hashable, JSON-able rendering of a group key (True != 1 here)."""
    if isinstance(k, (tuple, list)):
        return "(" + ",".join(tkey(x) for x in k) + ")"
    item = getattr(k, "item", None)
    if item is not None and type(k).__module__.startswith("numpy"):
        k = k.item()
    return f"{type(k).__name__}:{k!r}"


# ------------------------------------------------------------------ python cells


def py_cells(dtype, cells):
    """Reference values: float null = NaN, str null = None."""
    if dtype == "float":
        return [float("nan") if c is None else float(c) for c in cells]
    return list(cells)


def build_series(dtype, cells, index=None, name="a"):
    import numpy as np
    import pandas as pd

    if dtype == "float":
        s = pd.Series([np.nan if c is None else float(c) for c in cells], dtype="float64", name=name)
    elif dtype == "int":
        s = pd.Series(list(cells), dtype="int64", name=name)
    elif dtype == "bool":
        s = pd.Series(list(cells), dtype="bool", name=name)
    else:
        s = pd.Series(list(cells), dtype=object, name=name)
    if index is not None:
        s.index = pd.Index(list(index), dtype=object if not index else None)
    return s


# ------------------------------------------------------------------ predicates
# spec: {"k": kind, ...params}.  Every predicate is total on the nulls of the dtypes it is
# offered for (float NaN: comparisons are False; object None: only isin/strlen/const/eq).


def scalar_fn(p):
    k = p["k"]
    if k == "gt":
        a = p["a"]
        return lambda x: bool(x > a)
    if k == "mod":
        m, r = p["m"], p["r"]
        return lambda x: bool(x % m == r)
    if k == "isin":
        A = list(p["A"])
        return lambda x: bool(any(x == y for y in A)) if x is not None else False
    if k == "absdiff":
        a, b = p["a"], p["b"]
        return lambda x: bool(abs(x - a) <= b)
    if k == "strlen":
        n = p["n"]
        return lambda x: len(str(x)) < n
    if k == "const":
        c = bool(p["c"])
        return lambda x: c
    if k == "eq":
        a = p["a"]
        return lambda x: bool(x == a) if x is not None else False
    raise ValueError(k)


def native_fn(p, dtype):
    """Vectorised pandas form of the same predicate: Series -> bool Series."""
    import pandas as pd

    k = p["k"]
    if k == "gt":
        a = p["a"]
        return lambda s: s > a
    if k == "mod":
        m, r = p["m"], p["r"]
        return lambda s: (s % m) == r
    if k == "isin":
        A = list(p["A"])
        return lambda s: s.isin(A)
    if k == "absdiff":
        a, b = p["a"], p["b"]
        return lambda s: (s - a).abs() <= b
    if k == "const":
        c = bool(p["c"])
        return lambda s: pd.Series(c, index=s.index, dtype=bool)
    if k == "eq":
        a = p["a"]
        return lambda s: s == a
    if k == "strlen":
        f = scalar_fn(p)
        return lambda s: s.map(f).astype(bool)
    raise ValueError(k)


def ref_fail_positions(dtype, cells, p, ignore_na):
    f = scalar_fn(p)
    out = []
    for i, x in enumerate(py_cells(dtype, cells)):
        if is_null(x):
            if ignore_na:
                continue
        if not f(x):
            out.append(i)
    return out


# ------------------------------------------------------------------ built-in aliases (scalar semantics)

ALIASES = {
    "eq": "equal_to", "ne": "not_equal_to", "gt": "greater_than", "ge": "greater_than_or_equal_to",
    "lt": "less_than", "le": "less_than_or_equal_to", "between": "in_range",
}


def builtin_scalar(canon, args):
    if canon == "equal_to":
        return lambda x: bool(x == args[0])
    if canon == "not_equal_to":
        return lambda x: bool(x != args[0])
    if canon == "greater_than":
        return lambda x: bool(x > args[0])
    if canon == "greater_than_or_equal_to":
        return lambda x: bool(x >= args[0])
    if canon == "less_than":
        return lambda x: bool(x < args[0])
    if canon == "less_than_or_equal_to":
        return lambda x: bool(x <= args[0])
    if canon == "in_range":
        lo, hi = args[0], args[1]
        imin = args[2] if len(args) > 2 else True
        imax = args[3] if len(args) > 3 else True
        return lambda x: bool((x >= lo if imin else x > lo) and (x <= hi if imax else x < hi))
    raise ValueError(canon)


# ------------------------------------------------------------------ frame-level predicates


def frame_row_pred(p):
    """Row predicate on a dict row {col: python value} (NaN comparisons False)."""
    k = p["k"]
    if k in ("col_gt", "all_gt"):
        c = p["c"]
        return lambda row: bool(row["a"] > c)
    if k == "row_lt":
        return lambda row: bool(row["a"] < row["b"])
    if k == "row_const":
        v = bool(p["c"])
        return lambda row: v
    raise ValueError(k)


def ref_group(rows_keys, values, multi):
    """rows_keys: list of key tuples per row; values: list per row.  -> {tkey: [values]}"""
    out = {}
    for kt, v in zip(rows_keys, values):
        key = tuple(kt) if multi else kt[0]
        out.setdefault(tkey(key), []).append(v)
    return out
