"""Module-level callables used by C15 schemas (stable qualnames: fingerprints compare functions by name)."""


def chk_small(s):
    """vectorised custom check on numeric columns: every conforming cell is < 1000"""
    return s < 1000


def chk_elem_small(x):
    """element-wise custom check on numeric cells"""
    return x < 1000


def chk_str_nonempty(s):
    return s.str.len() > 0


def chk_frame_ok(df):
    """name-agnostic dataframe-level check (always true on a frame with >= 0 rows)"""
    return df.shape[0] >= 0


def p_ident(s):
    return s


def p_copy(s):
    return s.copy()
