"""C11 - drop_invalid_rows removes exactly the rows that violate a row-level constraint.

Oracle: with drop_invalid_rows=True and lazy=True the result holds precisely the input rows (by position,
tracked through the unique index labels) on which every row-level constraint of the reference model holds,
in the original order and with unchanged values; a violation that is not attributable to rows (wrong
physical dtype, missing column, strict, ...) is still raised as SchemaErrors.
"""
from __future__ import annotations

import copy

from hypothesis import strategies as st

from .. import fp, gen, known, refmodel, spec as sp
from ..core import Eval, Family
from . import c01

PROPERTY = "C11"
LEVEL = "exploration"
RULE = (
    "Conforming C01 pairs re-tightened by 1-3 schema mutations (nullable / unique with each report_duplicates / column, "
    "index and row-wise dataframe checks / joint uniqueness), drop_invalid_rows=True on DataFrameSchema, SeriesSchema and "
    "standalone Column, unique index of kinds range / shuffled and negative ints / strings / floats / MultiIndex. "
    "Non-trivial: >=2 failing constraints or a non-range index, with 0 < #bad rows < #rows. A second class adds one "
    "violation that is not attributable to rows (must raise)."
)
ASSUMPTIONS = c01.ASSUMPTIONS + [
    "the index is unique (docs/source/drop_invalid_rows.md restricts the feature to unique indexes): the generator makes it so",
    "uniqueness drops the rows the report lists (report_duplicates honoured)",
]


def uniquify_index(table):
    ix = table.get("index")
    if ix is None:
        return

    def fresh(phys, n):
        if phys in ("int64", "int32", "Int64"):
            return [(-3 + 2 * i) if i % 2 else (10 - i) for i in range(n)]
        if phys in ("float64", "float32"):
            return [0.5 * i - 1.0 for i in range(n)]
        if phys == "datetime64[ns]":
            return list(range(n))
        return [f"k{i}" for i in range(n)]

    if "multi" in ix:
        n = len(ix["multi"][0]["cells"])
        tuples = list(zip(*[l["cells"] for l in ix["multi"]]))
        if len(set(map(repr, tuples))) != len(tuples) or any(c is None for t in tuples for c in t):
            l = ix["multi"][-1]
            l["cells"] = fresh(l["phys"], n)
            for l in ix["multi"][:-1]:
                l["cells"] = [c if c is not None else 0 for c in l["cells"]] if l["phys"] != "object" else \
                    [c if c is not None else "z" for c in l["cells"]]
        return
    cells = ix["cells"]
    if len(set(map(repr, cells))) != len(cells) or any(c is None for c in cells):
        ix["cells"] = fresh(ix["phys"], len(cells))


def _re_safe(name):
    import re

    return isinstance(name, str) and re.escape(name) == name


@st.composite
def strategy(draw):
    base = draw(gen.case_strategy(allow_dup_labels=False, allow_frame_checks=True))
    base = copy.deepcopy(base)
    uniquify_index(base["table"])
    case = gen.repair(base)
    for _ in range(draw(st.integers(1, 3))):
        case = draw(gen.tighten(case, ops=gen.ROW_OPS))
    if draw(st.integers(0, 6)) == 0:
        case = draw(gen.tighten(case, ops=["dtype", "strict", "required", "ordered"]))
    spec = case["spec"]
    if spec.get("strict") == "filter":
        spec["strict"] = False
    kind = spec.get("kind", "dataframe")
    if kind == "dataframe" and len(spec["columns"]) >= 1 and draw(st.integers(0, 5)) == 0:
        # standalone Column with drop_invalid_rows
        import re as _re

        tn = [t["name"] for t in case["table"]["columns"]]
        cols = [c for c in spec["columns"] if (c["name"] in tn if not c.get("regex") else any(_re.match(c["name"], n) for n in tn))]
        rx = [c for c in cols if c.get("regex") and sum(1 for n in tn if _re.match(c["name"], n)) >= 2]
        if cols:
            # (a regex Column drops the rows that are invalid in any of the columns it selects)
            c = dict(draw(st.sampled_from(rx * 3 + cols)), drop_invalid_rows=True)
            spec = {"kind": "column", "columns": [c]}
    if kind == "dataframe" and spec.get("kind") != "column" and draw(st.integers(0, 7)) == 0:
        # a standalone regex Column selecting two numeric columns, with a bound that some rows of the *first* selected
        # column (and other rows of the second) violate: rows invalid in either are to be dropped
        num = [t for t in case["table"]["columns"] if t["phys"] in ("int64", "float64") and t["cells"]
               and not any(v is None for v in t["cells"]) and _re_safe(t["name"])]
        if len(num) >= 2:
            t1, t2 = draw(st.permutations(num))[:2]
            if t1["phys"] == t2["phys"]:
                allv = sorted(t1["cells"] + t2["cells"])
                m = draw(st.sampled_from(allv))
                spec = {"kind": "column", "columns": [{
                    "name": "^(%s|%s)$" % (t1["name"], t2["name"]), "regex": True, "dtype": t1["phys"], "nullable": False,
                    "unique": False, "required": True, "drop_invalid_rows": True,
                    "checks": [{"kind": "greater_than_or_equal_to", "args": {"min_value": m}}]}]}
    # a parser that changes nothing here (abs of non-negative numbers): the rows are dropped on the parsed data path
    tcs = {t["name"]: t for t in case["table"]["columns"]}
    for c in spec["columns"]:
        t = tcs.get(c["name"])
        if (t is not None and not c.get("regex") and t["phys"] in ("int64", "float64") and c.get("dtype") in ("int64", "float64")
                and all(v is None or v >= 0 for v in t["cells"]) and draw(st.integers(0, 3)) == 0):
            c["parsers"] = [{"kind": draw(st.sampled_from(["abs", "abs_inplace"]))}]
    spec["drop_invalid_rows"] = True
    out = {"spec": spec, "table": case["table"]}
    if case["table"].get("index") is None and not spec.get("index") and draw(st.integers(0, 3)) == 0:
        # row labels of other kinds than the default range (the schema says nothing about the index): rows are dropped by
        # label, so the labels named by the errors have to find their rows again whatever type they are
        out["labels"] = draw(st.sampled_from(["tz", "tz", "naive-dt", "td", "cat", "float", "str", "date-objects", "period"]))
    return out


def _ref(spec, table):
    if spec.get("kind") == "column":
        fspec = {"kind": "dataframe", "columns": [dict(spec["columns"][0], required=True)], "index": None}
        return refmodel.ref_validate(fspec, table)
    return refmodel.ref_validate(spec, table)


def evaluate(case):
    ev = Eval()
    spec, table = case["spec"], case["table"]
    try:
        ref = _ref(spec, table)
    except refmodel.Undefined as e:
        ev.skipped = "undefined:" + str(e).split(" on ")[0][:40]
        return ev
    n = sp.table_nrows(table)
    if spec.get("checks") and table.get("index") and "multi" in table["index"]:
        ev.skipped = "dataframe-level check on a MultiIndex frame (crash recorded as known finding under C02)"
        return ev
    if "unique_values_eq" in str(spec):
        ev.skipped = "aggregate check (unique_values_eq) is not a row-level constraint: dropping rows changes it"
        return ev
    if any(e.reason == "<check-on-wrong-dtype>" for e in ref.errors):
        ev.skipped = "a check runs on data of the wrong dtype (outcome undefined)"
        return ev
    schema = sp.pandas_schema(spec)
    data = sp.pandas_series(table) if spec.get("kind") == "series" else sp.pandas_frame(table)
    if case.get("labels"):
        import datetime
        import pandas as pd

        m = len(data)
        data.index = {
            "tz": lambda: pd.date_range("2020-01-01", periods=m, freq="D", tz="Europe/Berlin"),
            "naive-dt": lambda: pd.date_range("2020-01-01", periods=m, freq="h"),
            "td": lambda: pd.to_timedelta(list(range(m)), unit="s"),
            "cat": lambda: pd.CategoricalIndex(["k%d" % i for i in range(m)]),
            "float": lambda: pd.Index([i + 0.5 for i in range(m)]),
            "str": lambda: pd.Index(["r%d" % i for i in range(m)]),
            "date-objects": lambda: pd.Index([datetime.date(2020, 1, 1) + datetime.timedelta(days=i) for i in range(m)], dtype=object),
            "period": lambda: pd.period_range("2020-01", periods=m, freq="M"),
        }[case["labels"]]()
        ev.labels.append("labels=" + case["labels"])
    if not data.index.is_unique:
        ev.skipped = "non-unique index"
        return ev
    ev.labels.append("kind=" + spec.get("kind", "dataframe"))
    ixt = table.get("index")
    ev.labels.append("index=" + ("range" if ixt is None else "multi" if "multi" in ixt else ixt["phys"]))
    non_row = [e for e in ref.errors if e.rows is None]
    wrong_dtype_checks = [e for e in ref.errors if e.reason == "<check-on-wrong-dtype>"]
    bad = ref.bad_rows
    ev.nontrivial = 0 < len(bad) < n and (len([e for e in ref.errors if e.rows]) >= 2 or ixt is not None)
    ev.labels.append("bad_rows=" + ("none" if not bad else "all" if len(bad) == n else "some"))
    ev.labels.append("non-row-error" if non_row else "row-errors-only")
    has_index_error = any(e.where == "<index>" or (isinstance(e.where, tuple) and e.where and e.where[0] == "<index>")
                          for e in ref.errors)
    null_dup = any(e.check in ("field_uniqueness",) and e.values and any(v is None for v in e.values) for e in ref.errors) \
        or any(e.reason == "DUPLICATES" for e in ref.errors)
    if has_index_error:
        ev.labels.append("index-component-error")

    # eager + drop_invalid_rows is a documented usage error
    oe = fp.outcome(lambda: schema.validate(data, lazy=False))
    if not (oe["kind"] == "usage" and oe["exc_type"] == "SchemaDefinitionError"):
        ev.add("eager-drop_invalid_rows-not-SchemaDefinitionError", {"kind": oe["kind"], "type": oe.get("exc_type")})

    before = fp.snapshot(data)
    o = fp.outcome(lambda: schema.validate(data, lazy=True))
    if non_row:
        ev.labels.append("expect-raise")
        if o["kind"] == "internal":
            ev.add("non-row-violation-crashes:" + o["exc_type"], {"where": o["where"], "msg": o["msg"][:160],
                                                                 "reference": [e.key() for e in non_row][:4]})
        elif o["kind"] == "ok":
            ev.add("non-row-violation-swallowed", {"reference": [e.key() for e in non_row][:4]})
        elif o["kind"] != "SchemaErrors":
            ev.add("non-row-violation-wrong-exception", {"kind": o["kind"]})
        return ev
    if o["kind"] == "internal":
        ev.add("drop-crashes:" + o["exc_type"], {"where": o["where"], "msg": o["msg"][:200],
                                                 "multiindex": bool(ixt and "multi" in ixt), "null_dup": null_dup})
        return ev
    if o["kind"] != "ok":
        only_index = all(e.where == "<index>" or (isinstance(e.where, tuple) and e.where and e.where[0] == "<index>")
                         for e in ref.errors)
        ev.add("row-violations-raised-instead-of-dropped:" + ("index-only" if only_index else "+".join(o.get("reasons", []))),
               {"kind": o["kind"], "reference": [e.key() for e in ref.errors][:5], "only_index": only_index})
        return ev
    res = o["value"]
    try:
        labels = list(data.index)
        pos_of = {repr(l): i for i, l in enumerate(labels)}
        got_pos = [pos_of.get(repr(l)) for l in res.index]
    except Exception as e:
        ev.add("result-not-indexable", repr(e)[:200])
        return ev
    want_pos = [i for i in range(n) if i not in bad]
    if got_pos != want_pos:
        extra = [p for p in got_pos if p not in want_pos]
        missing = [p for p in want_pos if p not in got_pos]
        sym = "invalid-row-survives" if extra else "valid-row-dropped" if missing else "order-changed"
        ev.add(sym, {"expected_positions": want_pos, "got_positions": got_pos, "bad_rows": sorted(bad),
                     "index_error": has_index_error, "null_dup": null_dup,
                     "reference": [(e.key(), e.rows) for e in ref.errors][:5]})
        return ev
    try:
        exp = data.iloc[want_pos]
        if fp.snapshot(res)["cells" if True else ""] != fp.snapshot(exp)["cells"]:
            ev.add("surviving-values-changed", {"diff": fp.fp_diff(fp.snapshot(exp), fp.snapshot(res))})
    except Exception as e:
        ev.add("result-not-comparable", repr(e)[:200])
    if fp.snapshot(data) != before:
        ev.labels.append("input-mutated")
    return ev


def _has_index_spec(case):
    return case["spec"].get("index") is not None


@known.finding("C11/index-component-errors-carry-positions")
def _kf_index_positions(family, case, disc):
    return (disc.kind in ("invalid-row-survives", "valid-row-dropped") and _has_index_spec(case)
            and isinstance(disc.detail, dict) and disc.detail.get("index_error"))


@known.finding("C11/non-row-violation-crashes-drop_invalid_rows")
def _kf_non_row_crash(family, case, disc):
    return (disc.kind.startswith("non-row-violation-crashes:TypeError") and isinstance(disc.detail, dict)
            and "drop_invalid_rows" in str(disc.detail.get("where")))


@known.finding("C11/null-duplicates-not-dropped")
def _kf_null_dup(family, case, disc):
    if not isinstance(disc.detail, dict) or not disc.detail.get("null_dup"):
        return False
    if disc.kind == "invalid-row-survives" and not disc.detail.get("index_error"):
        return True
    # on a MultiIndex frame the emptied failure cases make MultiIndex.from_tuples([]) raise
    return (disc.kind == "drop-crashes:TypeError" and disc.detail.get("multiindex")
            and "Cannot infer number of levels from empty list" in str(disc.detail.get("msg")))


@known.finding("C11/series-index-violations-raised-not-dropped")
def _kf_series_index(family, case, disc):
    return (disc.kind.startswith("row-violations-raised-instead-of-dropped") and case["spec"].get("kind") == "series"
            and case["spec"].get("index") is not None and any(
                "<index>" in str(k) for k in (disc.detail or {}).get("reference", [])))


FAMILIES = [
    Family("pandas", evaluate, strategy=strategy, n_quick=1000, n_thorough=4000, shards_quick=4, shards_thorough=16,
           required_labels=["bad_rows=some", "kind=series", "kind=column", "index=multi", "expect-raise"]),
]

from . import plx  # noqa: E402

FAMILIES.append(
    Family("polars", plx.eval_c11, strategy=plx.strat_c11, n_quick=700, n_thorough=3000, shards_quick=3, shards_thorough=12,
           required_labels=["container=lf_full", "ref=some-bad", "ref=non-row-violation"]))


def selftest():
    refmodel.selftest()
