"""Predicates that recognise *known findings* (genuine defects recorded, not repaired).

A discrepancy is attributed to a known finding only when (a) the finding id is listed
under "known" in /verif/known_findings.json and (b) the predicate registered here for
that id matches BOTH the case features (trigger) and the discrepancy (symptom).  A
"fixed" entry has no predicate effect: if the violation returns it is reported.
"""
from __future__ import annotations

from . import core

_PREDICATES = {}  # id -> (property, fn(family, case, disc) -> bool)
_ACTIVE = None


def finding(fid: str):
    prop = fid.split("/")[0]

    def deco(fn):
        _PREDICATES[fid] = (prop, fn)
        return fn

    return deco


def _active():
    global _ACTIVE
    if _ACTIVE is None:
        _ACTIVE = core.known_ids()
    return _ACTIVE


def match(pid, family, case, disc):
    for fid, (prop, fn) in _PREDICATES.items():
        if prop != pid or fid not in _active():
            continue
        try:
            if fn(family, case, disc):
                return fid
        except Exception:
            continue
    return None


def registered(pid):
    return [fid for fid, (prop, _) in _PREDICATES.items() if prop == pid]
