"""Reference model of the declarative schema semantics (pandas flavour), independent of pandera.

Operates on SchemaSpec / TableSpec (harness.spec) with plain Python scalars: no pandas, no
pandera.  Semantics follow docs/source/{dataframe_schemas,series_schemas,checks,dtype_validation}.md
and the Column / Index / DataFrameSchema / Check docstrings; conventions the docs leave open
(marked CONVENTION) follow DESIGN.md §6.

ref_validate(spec, table, rows=None) -> Ref
    rows: positions on which *data-level* constraints are evaluated (head/tail/sample); None = all.
"""
from __future__ import annotations

import re
from dataclasses import dataclass, field


class Undefined(Exception):
    """The (schema, table) pair is outside the region where the documented semantics is defined
    (e.g. a string check on a non-string column): the case is skipped, never scored."""


SCHEMA, DATA = "SCHEMA", "DATA"


@dataclass
class RefError:
    reason: str  # SchemaErrorReason name pandera documents for this constraint
    scope: str  # SCHEMA | DATA
    where: object = None  # column label, "<index>", ("<index>", level) or None (frame level)
    check: object = None  # check kind / constraint id
    rows: object = None  # list of row positions (row-attributable) or None (frame-level / scalar)
    values: object = None  # offending values aligned with rows

    def key(self):
        return (self.reason, repr(self.where), str(self.check))


@dataclass
class Ref:
    errors: list = field(default_factory=list)
    filtered_columns: list = field(default_factory=list)  # strict='filter' drops these

    @property
    def accept(self):
        return not self.errors

    def accept_at(self, depth):
        if depth == "SCHEMA_ONLY":
            return not [e for e in self.errors if e.scope == SCHEMA]
        if depth == "DATA_ONLY":
            return not [e for e in self.errors if e.scope == DATA]
        return self.accept

    @property
    def reasons(self):
        return sorted({e.reason for e in self.errors})

    @property
    def bad_rows(self):
        out = set()
        for e in self.errors:
            if e.rows is not None:
                out.update(e.rows)
        return out

    @property
    def has_frame_level(self):
        return any(e.rows is None for e in self.errors)


# ------------------------------------------------------------------- scalar semantics


def is_null(c):
    return c is None


def dup_key(c):
    # CONVENTION: nulls compare equal for uniqueness (pandas duplicated)
    if c is None:
        return ("null",)
    if isinstance(c, float) and c == int(c) and abs(c) < 2 ** 53:
        return ("v", int(c))
    if isinstance(c, bool):
        return ("v", int(c))
    return ("v", c)


DTYPE_ACCEPTS = {  # schema dtype tag -> physical dtypes accepted (CONVENTION: int64~Int64)
    "int64": {"int64", "Int64"}, "Int64": {"int64", "Int64"}, "int32": {"int32"},
    "float64": {"float64"}, "float32": {"float32"}, "bool": {"bool"}, "object": {"object"},
    "datetime64[ns]": {"datetime64[ns]"}, "string": {"string"},
}


def dtype_bad_rows(tag, phys, cells):
    """None if the dtype constraint holds; "scalar" when the whole column has the wrong dtype;
    a list of row positions for the element-wise `str` dtype."""
    if tag is None:
        return None
    if tag == "str":
        bad = [i for i, c in enumerate(cells) if not (c is None or isinstance(c, str))]
        return bad or None
    return None if phys in DTYPE_ACCEPTS[tag] else "scalar"


_NUMERIC_PHYS = {"int64", "int32", "float64", "float32", "Int64", "bool"}
_STR_PHYS = {"object", "string"}


def _arg_kind(v):
    if isinstance(v, bool):
        return "bool"
    if isinstance(v, (int, float)):
        return "num"
    if isinstance(v, str):
        return "str"
    return "other"


def check_pred(cs, phys):
    """Returns f(cell) -> bool for one cell, for element predicates.  Raises Undefined when the check
    is applied to a physical type on which the documented comparison is not defined."""
    k, a = cs["kind"], cs.get("args", {})
    if k.startswith("str_"):
        if phys not in _STR_PHYS:
            raise Undefined(f"{k} on {phys}")

        def need_str(fn):
            def g(c):
                if not isinstance(c, str):
                    raise Undefined(f"{k} on non-str cell")
                return fn(c)
            return g

        if k in ("str_matches", "str_contains"):
            # "flags": a compiled pattern (re.compile(pattern, flags)) is given to the check instead of the text
            fl = 0
            for f in a.get("flags") or []:
                fl |= getattr(re, f)
            rx = re.compile(a["pattern"], fl)
            if k == "str_matches":
                return need_str(lambda c: rx.match(c) is not None)
            return need_str(lambda c: rx.search(c) is not None)
        if k == "str_startswith":
            return need_str(lambda c: c.startswith(a["string"]))
        if k == "str_endswith":
            return need_str(lambda c: c.endswith(a["string"]))
        if k == "str_length":
            lo, hi = a.get("min_value"), a.get("max_value")
            return need_str(lambda c: (lo is None or len(c) >= lo) and (hi is None or len(c) <= hi))
    args = []
    for key in ("value", "min_value", "max_value"):
        if key in a and a[key] is not None:
            args.append(a[key])
    for key in ("allowed_values", "forbidden_values", "values"):
        args += list(a.get(key, []))
    kinds = {_arg_kind(v) for v in args}
    if phys in _NUMERIC_PHYS or phys == "datetime64[ns]":
        if kinds - {"num", "bool"}:
            raise Undefined(f"{k} with non-numeric argument on {phys}")
        typed = lambda c: c  # noqa: E731
    elif phys in _STR_PHYS:
        if kinds - {"str"}:
            raise Undefined(f"{k} with non-str argument on {phys}")

        def typed(c):
            if not isinstance(c, str):
                raise Undefined("ordering/equality check on non-str object cell")
            return c
    else:
        raise Undefined(phys)
    if k == "equal_to":
        return lambda c: typed(c) == a["value"]
    if k == "not_equal_to":
        return lambda c: typed(c) != a["value"]
    if k == "greater_than":
        return lambda c: typed(c) > a["min_value"]
    if k == "greater_than_or_equal_to":
        return lambda c: typed(c) >= a["min_value"]
    if k == "less_than":
        return lambda c: typed(c) < a["max_value"]
    if k == "less_than_or_equal_to":
        return lambda c: typed(c) <= a["max_value"]
    if k == "in_range":
        lo, hi = a["min_value"], a["max_value"]
        imin, imax = a.get("include_min", True), a.get("include_max", True)
        return lambda c: (typed(c) >= lo if imin else typed(c) > lo) and (typed(c) <= hi if imax else typed(c) < hi)
    if k == "isin":
        allowed = {dup_key(v) for v in a["allowed_values"]}
        return lambda c: dup_key(typed(c)) in allowed
    if k == "notin":
        forb = {dup_key(v) for v in a["forbidden_values"]}
        return lambda c: dup_key(typed(c)) not in forb
    raise Undefined(k)


# predicate value on a null cell when ignore_na=False (NaN/NaT/None comparison semantics:
# every comparison is False, `!=` and `notin` are True) -- docs/source/checks.md "Handling Null Values"
_NULL_TRUE = {"not_equal_to", "notin"}


def eval_check(cs, phys, cells, rows):
    """-> (bad_rows list | None, scalar_fail bool).  rows: positions to look at."""
    k = cs["kind"]
    ignore_na = cs.get("ignore_na", True)
    if k == "unique_values_eq":
        if phys in _STR_PHYS and any(not isinstance(v, str) for v in cs["args"]["values"]):
            raise Undefined("unique_values_eq arg type")
        vals = set()
        for i in rows:
            c = cells[i]
            if c is None:
                if not ignore_na:
                    vals.add(("null",))
                continue
            vals.add(dup_key(c))
        want = {dup_key(v) for v in cs["args"]["values"]}
        return None, vals != want
    pred = check_pred(cs, phys)
    bad = []
    for i in rows:
        c = cells[i]
        if c is None:
            if ignore_na:
                continue
            if phys not in ("float64", "float32", "datetime64[ns]") and not k.startswith("str_"):
                raise Undefined("ignore_na=False on a null of a non-float/datetime column")
            if k == "str_length":
                raise Undefined("str_length on null with ignore_na=False")
            ok = k in _NULL_TRUE
        else:
            ok = pred(c)
        if not ok:
            bad.append(i)
    return (bad or None), False


# ------------------------------------------------------------------------- components


def _field_errors(fs, phys, cells, rows_data, where, is_index=False, name=None, check_name=False, rows_schema=None):
    """Errors of one array-like field (column / index / series) against a ColSpec/IndexSpec.
    rows_schema: positions on which the row-attributable schema-level constraints (nullable, element-wise
    str dtype) are evaluated; None = every row."""
    errs = []
    n = len(cells)
    all_rows = list(range(n)) if rows_schema is None else rows_schema
    if check_name and fs.get("name") is not None and fs.get("name") != name:
        errs.append(RefError("WRONG_FIELD_NAME", SCHEMA, where, "field_name"))
    if not fs.get("nullable", False):
        bad = [i for i in all_rows if cells[i] is None]
        if bad:
            errs.append(RefError("SERIES_CONTAINS_NULLS", SCHEMA, where, "not_nullable", bad, [None] * len(bad)))
    if fs.get("unique", False):
        keep = fs.get("report_duplicates", "all")
        seen = {}
        for i in rows_data:
            seen.setdefault(dup_key(cells[i]), []).append(i)
        bad = []
        for k, pos in seen.items():
            if len(pos) > 1:
                bad += pos if keep == "all" else (pos[1:] if keep == "exclude_first" else pos[:-1])
        if bad:
            bad.sort()
            errs.append(RefError("SERIES_CONTAINS_DUPLICATES", DATA, where, "field_uniqueness", bad,
                                 [cells[i] for i in bad]))
    dt = dtype_bad_rows(fs.get("dtype"), phys, cells)
    if isinstance(dt, list):
        dt = [i for i in dt if i in set(all_rows)] or None
    dtype_ok = dt is None
    if dt == "scalar":
        errs.append(RefError("WRONG_DATATYPE", SCHEMA, where, "dtype", None, phys))
    elif dt:
        errs.append(RefError("WRONG_DATATYPE", SCHEMA, where, "dtype", dt, [cells[i] for i in dt]))
    if fs.get("checks") and phys == "datetime64[ns]" and fs.get("dtype") != "datetime64[ns]":
        # check arguments are only rendered as timestamps for columns declared datetime
        raise Undefined("checks on datetime data under a non-datetime declared dtype")
    for ci, cs in enumerate(fs.get("checks", [])):
        if not dtype_ok:
            # the check runs on data of another type: outcome is not defined by the docs; the verdict
            # is reject because of the dtype error, the report for this check is not scored.
            errs.append(RefError("<check-on-wrong-dtype>", DATA, where, (ci, cs["kind"]), None, None))
            continue
        bad, scalar = eval_check(cs, phys, cells, rows_data)
        if scalar:
            errs.append(RefError("DATAFRAME_CHECK", DATA, where, (ci, cs["kind"]), None, False))
        elif bad:
            errs.append(RefError("DATAFRAME_CHECK", DATA, where, (ci, cs["kind"]), bad, [cells[i] for i in bad]))
    return errs


def _index_errors(ixspec, ixtable, n, rows_data, rows_schema=None):
    if ixspec is None:
        return []
    flat_default = {"name": None, "phys": "int64", "cells": list(range(n))}
    if "multi" in ixspec:
        if ixtable is None or "multi" not in ixtable:
            # MultiIndex schema on a flat index: the single level is column 0 / its name; declared levels missing
            return [RefError("COLUMN_NOT_IN_DATAFRAME", SCHEMA, "<index>", "multiindex-on-flat-index")]
        levels = ixtable["multi"]
        names = [l.get("name") for l in levels]
        if any(nm is None for nm in names) or len(set(names)) != len(names):
            raise Undefined("MultiIndex data with unnamed/duplicate level names")
        sub_spec = {
            "columns": [dict(l, required=True, regex=False) for l in ixspec["multi"]],
            "strict": ixspec.get("strict", False), "ordered": ixspec.get("ordered", True),
            "unique": ixspec.get("unique"),
        }
        if any(l.get("name") is None for l in ixspec["multi"]):
            raise Undefined("MultiIndex schema with unnamed levels")
        sub_table = {"columns": [{"name": l["name"], "phys": l["phys"], "cells": l["cells"]} for l in levels]}
        sub = ref_validate(sub_spec, sub_table, rows=rows_data, restrict_all=rows_schema is not None)
        for e in sub.errors:
            e.where = ("<index>", e.where)
        return sub.errors
    if ixtable is not None and "multi" in ixtable:
        return [RefError("MISMATCH_INDEX", SCHEMA, "<index>", "index-on-multiindex")]
    it = ixtable or flat_default
    return _field_errors(ixspec, it["phys"], it["cells"], rows_data, "<index>", is_index=True,
                         name=it.get("name"), check_name=True, rows_schema=rows_schema)


def expand_columns(spec, names):
    """-> (column_names list with regex expansion in frame order, per-spec-column matched labels)"""
    out, per = [], []
    for col in spec["columns"]:
        if col.get("regex"):
            rx = re.compile(col["name"])
            m = [nm for nm in names if rx.match(nm)]
            m = list(dict.fromkeys(m))
            per.append(m)
            out += m
        elif col["name"] in names:
            per.append([col["name"]])
            out.append(col["name"])
        else:
            per.append([])
    return out, per


def ref_validate(spec, table, rows=None, restrict_all=False):
    """restrict_all: evaluate nullable / element-wise dtype on `rows` as well (head/tail/sample semantics)."""
    kind = spec.get("kind", "dataframe")
    ref = Ref()
    from .spec import table_nrows

    n = table_nrows(table)
    rows_data = list(range(n)) if rows is None else sorted(set(rows))
    rows_schema = rows_data if (restrict_all and rows is not None) else None
    if kind == "series":
        col = table["columns"][0]
        fs = dict(spec["columns"][0])
        if not spec.get("series_named", True):
            fs["name"] = None
        ref.errors += _field_errors(fs, col["phys"], col["cells"], rows_data, col["name"], name=col["name"],
                                    check_name=True, rows_schema=rows_schema)
        ref.errors += _index_errors(spec.get("index"), table.get("index"), n, rows_data, rows_schema)
        return ref

    tcols = table["columns"]
    names = [c["name"] for c in tcols]
    destuttered = [nm for i, nm in enumerate(names) if i == 0 or names[i - 1] != nm]
    column_names, per = expand_columns(spec, names)
    expanded = set(column_names)
    strict = spec.get("strict", False)

    # strict / ordered (raised from the parsing phase, first offender only)
    for nm in destuttered:
        if strict is True and nm not in expanded:
            ref.errors.append(RefError("COLUMN_NOT_IN_SCHEMA", SCHEMA, None, ("column_in_schema", nm), None, nm))
            break
    if strict == "filter":
        ref.filtered_columns = [nm for nm in destuttered if nm not in expanded]
    if spec.get("ordered", False):
        present = [nm for nm in destuttered if nm in expanded]
        if len(set(present)) != len(present):
            raise Undefined("ordered with non-adjacent duplicated labels")
        want = list(dict.fromkeys(column_names))
        if present != want:
            ref.errors.append(RefError("COLUMN_NOT_ORDERED", SCHEMA, None, "column_ordered"))
    kept = [nm for nm in names if nm not in set(ref.filtered_columns)]  # strict='filter' parses first
    if spec.get("unique_column_names", False) and len(set(kept)) != len(kept):
        ref.errors.append(RefError("DUPLICATE_COLUMN_LABELS", SCHEMA, None, "dataframe_column_labels_unique"))

    # presence
    for col in spec["columns"]:
        if not col.get("regex") and col.get("required", True) and col["name"] not in names:
            ref.errors.append(RefError("COLUMN_NOT_IN_DATAFRAME", SCHEMA, None, ("column_in_dataframe", col["name"]),
                                       None, col["name"]))

    # joint uniqueness
    uq = spec.get("unique")
    if uq:
        groups = [uq] if all(isinstance(x, str) for x in uq) else uq
        keep = spec.get("report_duplicates", "all")
        for g in groups:
            subset = [x for x in g if x in names]
            if not subset:
                continue  # nothing to compare
            if any(names.count(x) > 1 for x in subset):
                raise Undefined("joint unique over duplicated labels")
            cols = [tcols[names.index(x)]["cells"] for x in subset]
            seen = {}
            for i in rows_data:
                seen.setdefault(tuple(dup_key(c[i]) for c in cols), []).append(i)
            bad = []
            for k, pos in seen.items():
                if len(pos) > 1:
                    bad += pos if keep == "all" else (pos[1:] if keep == "exclude_first" else pos[:-1])
            if bad:
                ref.errors.append(RefError("DUPLICATES", DATA, None, ("multiple_fields_uniqueness", tuple(subset)),
                                           sorted(bad), None))
                break

    # per-column components
    filtered = set(ref.filtered_columns)
    for col, matched in zip(spec["columns"], per):
        if col.get("regex"):
            if not matched:
                if col.get("required", True):
                    ref.errors.append(RefError("INVALID_COLUMN_NAME", SCHEMA, col["name"], "no_regex_column_match"))
                continue
        elif not matched:
            continue
        for label in matched:
            for tc in [c for c in tcols if c["name"] == label]:
                fs = dict(col)
                if spec.get("dtype"):
                    fs["dtype"] = spec["dtype"]
                ref.errors += _field_errors(fs, tc["phys"], tc["cells"], rows_data, label, rows_schema=rows_schema)
    if spec.get("dtype") and not spec["columns"]:
        for tc in tcols:
            ref.errors += _field_errors({"dtype": spec["dtype"], "nullable": False}, tc["phys"], tc["cells"], rows_data,
                                        tc["name"], rows_schema=rows_schema)

    ref.errors += _index_errors(spec.get("index"), table.get("index"), n, rows_data, rows_schema)

    # dataframe-level built-in checks apply to every cell of the (filtered) frame
    for ci, cs in enumerate(spec.get("checks", [])):
        live = [c for c in tcols if c["name"] not in filtered]
        if cs["kind"] == "col_ge":  # user-written row-wise check on one (null-free, numeric) column
            tgt = [c for c in live if c["name"] == cs["args"]["column"]]
            if len(tgt) != 1 or tgt[0]["phys"] not in _NUMERIC_PHYS or any(c is None for c in tgt[0]["cells"]):
                raise Undefined("col_ge outside its domain")
            bad = [i for i in rows_data if tgt[0]["cells"][i] < cs["args"]["min_value"]]
            if bad:
                ref.errors.append(RefError("DATAFRAME_CHECK", DATA, None, ("frame", ci, cs["kind"]), sorted(bad), None))
            continue
        if cs["kind"] == "unique_values_eq" or cs["kind"].startswith("str_"):
            raise Undefined("frame-level non-elementwise/str check")
        if len({c["name"] for c in live}) != len(live):
            raise Undefined("frame-level check over duplicated labels")
        bad_rows = set()
        for tc in live:
            if tc["phys"] not in _NUMERIC_PHYS:
                raise Undefined("frame-level comparison on non-numeric column")
            if cs.get("ignore_na", True) is False and any(c is None for c in tc["cells"]):
                raise Undefined("frame-level ignore_na=False with nulls")
            bad, _ = eval_check(cs, tc["phys"], tc["cells"], rows_data)
            bad_rows.update(bad or [])
        if bad_rows:
            ref.errors.append(RefError("DATAFRAME_CHECK", DATA, None, ("frame", ci, cs["kind"]), sorted(bad_rows), None))
    return ref


# ---------------------------------------------------------------------------- selftest

def selftest():
    """Literal fixtures (DESIGN.md §6); no pandera involved."""
    from .core import HarnessError

    def T(cols, index=None):
        return {"columns": [{"name": n, "phys": p, "cells": c} for n, p, c in cols], "index": index}

    def C(name, dtype=None, **kw):
        return dict({"name": name, "dtype": dtype, "checks": []}, **kw)

    fx = [
        ("unique NaN NaN", {"columns": [C("a", "float64", unique=True, nullable=True)]}, T([("a", "float64", [None, None])]), False),
        ("ordered optional absent", {"columns": [C("a", "int64"), C("b", "int64", required=False), C("c", "int64")], "ordered": True},
         T([("a", "int64", [1]), ("c", "int64", [1])]), True),
        ("ordered extra between", {"columns": [C("a", "int64"), C("c", "int64")], "ordered": True},
         T([("a", "int64", [1]), ("z", "int64", [0]), ("c", "int64", [1])]), True),
        ("ordered swapped", {"columns": [C("a", "int64"), C("c", "int64")], "ordered": True},
         T([("c", "int64", [1]), ("a", "int64", [1])]), False),
        ("ordered regex interleaved", {"columns": [C("^x", "int64", regex=True), C("a", "int64")], "ordered": True},
         T([("x1", "int64", [1]), ("a", "int64", [1]), ("x2", "int64", [1])]), False),
        ("strict regex extra", {"columns": [C("^x", "int64", regex=True)], "strict": True},
         T([("x1", "int64", [1]), ("y", "int64", [1])]), False),
        ("regex none optional", {"columns": [C("^x", "int64", regex=True, required=False)]}, T([("y", "int64", [1])]), True),
        ("regex none required", {"columns": [C("^x", "int64", regex=True)]}, T([("y", "int64", [1])]), False),
        ("int vs int32", {"columns": [C("a", "int64")]}, T([("a", "int32", [1])]), False),
        ("int vs Int64", {"columns": [C("a", "int64")]}, T([("a", "Int64", [1])]), True),
        ("str with int", {"columns": [C("a", "str")]}, T([("a", "object", [1, "x"])]), False),
        ("str None nullable", {"columns": [C("a", "str", nullable=True)]}, T([("a", "object", [None, "x"])]), True),
        ("str None", {"columns": [C("a", "str")]}, T([("a", "object", [None, "x"])]), False),
        ("gt NaN ignore", {"columns": [C("a", "float64", nullable=True, checks=[{"kind": "greater_than", "args": {"min_value": 0}}])]},
         T([("a", "float64", [1.0, None])]), True),
        ("gt NaN no-ignore", {"columns": [C("a", "float64", nullable=True, checks=[{"kind": "greater_than", "args": {"min_value": 0}, "ignore_na": False}])]},
         T([("a", "float64", [1.0, None])]), False),
        ("ne NaN no-ignore", {"columns": [C("a", "float64", nullable=True, checks=[{"kind": "not_equal_to", "args": {"value": 0}, "ignore_na": False}])]},
         T([("a", "float64", [1.0, None])]), True),
        ("in_range excl min", {"columns": [C("a", "int64", checks=[{"kind": "in_range", "args": {"min_value": 1, "max_value": 3, "include_min": False}}])]},
         T([("a", "int64", [1])]), False),
        ("index name", {"columns": [], "index": {"name": "i", "dtype": "int64"}}, T([], {"name": "j", "phys": "int64", "cells": [1]}), False),
        ("index no name", {"columns": [], "index": {"name": None, "dtype": "int64"}}, T([], {"name": "j", "phys": "int64", "cells": [1]}), True),
        ("strict zero cols", {"columns": [], "strict": True}, T([("a", "int64", [1])]), False),
    ]
    for name, spec, table, want in fx:
        got = ref_validate(spec, table).accept
        if got != want:
            raise HarnessError(f"reference model disagrees with documented fixture {name!r}: {got} != {want}")
