"""Structural fingerprints of schemas, snapshots of data, config state.

None of this uses pandera's own ``__eq__``: a fingerprint is a canonical JSON dump of the
object graph reachable from a schema (``__dict__`` / dataclass fields), so hidden state
(temporarily overridden attributes that were not restored, mutated ``Check.statistics``,
rewritten fields of a frozen dtype) shows up as a diff.
"""
from __future__ import annotations

import dataclasses
import enum
import functools
import json
import math
import re
import types

MAX_DEPTH = 14


def _qual(o):
    return f"{getattr(o, '__module__', '?')}.{getattr(o, '__qualname__', getattr(o, '__name__', repr(o)))}"


def _callable_fp(f, fn_identity):
    if isinstance(f, functools.partial):
        return {"partial": _callable_fp(f.func, fn_identity), "args": fingerprint(list(f.args), fn_identity),
                "kw": fingerprint(dict(f.keywords or {}), fn_identity)}
    name = _qual(f)
    if fn_identity == "id":
        return {"fn": name, "id": id(f)}
    if fn_identity == "none":
        return {"fn": "<callable>"}
    return {"fn": name}


def fingerprint(o, fn_identity="name", _depth=0, _seen=None):
    """JSON-able structural dump.  fn_identity: 'name' (module.qualname), 'id', or 'none'."""
    if _seen is None:
        _seen = set()
    if _depth > MAX_DEPTH:
        return "<depth>"
    if o is None or isinstance(o, (bool, int, str)):
        return o
    if isinstance(o, float):
        if math.isnan(o):
            return "NaN"
        if math.isinf(o):
            return "inf" if o > 0 else "-inf"
        return o
    if isinstance(o, (bytes, complex)):
        return repr(o)
    if isinstance(o, enum.Enum):
        return f"{type(o).__name__}.{o.name}"
    rec = lambda x: fingerprint(x, fn_identity, _depth + 1, _seen)  # noqa: E731
    if isinstance(o, (list, tuple)):
        return [rec(x) for x in o]
    if isinstance(o, (set, frozenset)):
        return {"set": sorted((rec(x) for x in o), key=lambda v: json.dumps(v, sort_keys=True, default=repr))}
    if isinstance(o, dict):
        return {"dict": [[rec(k), rec(v)] for k, v in o.items()]}
    if isinstance(o, re.Pattern):
        return {"re": o.pattern, "flags": o.flags}
    if isinstance(o, type):
        return {"type": _qual(o)}
    if isinstance(o, (types.FunctionType, types.BuiltinFunctionType, types.MethodType, functools.partial)):
        return _callable_fp(o, fn_identity)
    mod = type(o).__module__ or ""
    # third-party value objects: numpy / pandas / polars / pyarrow / datetime ...
    if mod.startswith(("numpy", "polars", "pyarrow", "datetime", "decimal", "zoneinfo", "pytz", "dateutil")):
        return {"val": f"{type(o).__name__}:{o!r}"}
    if mod.startswith("pandas"):
        try:
            import pandas as pd

            if isinstance(o, (pd.Series, pd.Index)):
                return {"pandas": type(o).__name__, "dtype": str(o.dtype), "values": [repr(x) for x in o.tolist()],
                        "name": repr(getattr(o, "name", None))}
            if isinstance(o, pd.DataFrame):
                return {"pandas": "DataFrame", "cols": [repr(c) for c in o.columns],
                        "values": [[repr(x) for x in o[c].tolist()] for c in o.columns] if o.columns.is_unique else repr(o)}
        except Exception:
            pass
        return {"val": f"{type(o).__name__}:{o!r}"}
    if type(o).__name__ == "Dispatcher" and mod.startswith("pandera.api.function_dispatch"):
        # process-wide registry of built-in check implementations (grows lazily as backends
        # register): identity is the built-in's name, not the registry contents
        return {"builtin_check_fn": getattr(o, "_name", None)}
    if id(o) in _seen:
        return {"cycle": _qual(type(o))}
    _seen = _seen | {id(o)}
    rec = lambda x: fingerprint(x, fn_identity, _depth + 1, _seen)  # noqa: E731
    out = {"__class__": _qual(type(o))}
    fields = {}
    if dataclasses.is_dataclass(o) and not isinstance(o, type):
        for f in dataclasses.fields(o):
            try:
                fields[f.name] = getattr(o, f.name)
            except Exception as e:  # pragma: no cover
                fields[f.name] = f"<{type(e).__name__}>"
    d = getattr(o, "__dict__", None)
    if isinstance(d, dict):
        fields.update(d)
    for cls in type(o).__mro__:
        for s in getattr(cls, "__slots__", ()) or ():
            if isinstance(s, str) and s not in fields and hasattr(o, s):
                fields[s] = getattr(o, s)
    if not fields and not isinstance(d, dict):
        if callable(o):
            return _callable_fp(o, fn_identity)
        return {"val": f"{type(o).__name__}:{o!r}"[:300]}
    for k in sorted(fields):
        if k.startswith("__"):
            continue
        out[k] = rec(fields[k])
    return out


def fp_json(o, fn_identity="name"):
    return json.dumps(fingerprint(o, fn_identity), sort_keys=True, default=repr)


def fp_diff(a, b, path="", out=None, limit=8):
    """Paths at which two fingerprints (already JSON-able) differ."""
    if out is None:
        out = []
    if len(out) >= limit:
        return out
    if type(a) != type(b):
        out.append({"path": path, "a": _short(a), "b": _short(b)})
    elif isinstance(a, dict):
        for k in sorted(set(a) | set(b)):
            if k not in a or k not in b:
                out.append({"path": f"{path}.{k}", "a": _short(a.get(k, "<absent>")), "b": _short(b.get(k, "<absent>"))})
            else:
                fp_diff(a[k], b[k], f"{path}.{k}", out, limit)
    elif isinstance(a, list):
        if len(a) != len(b):
            out.append({"path": path + ".len", "a": len(a), "b": len(b)})
        for i, (x, y) in enumerate(zip(a, b)):
            fp_diff(x, y, f"{path}[{i}]", out, limit)
    elif a != b:
        out.append({"path": path, "a": _short(a), "b": _short(b)})
    return out


def _short(x):
    s = json.dumps(x, sort_keys=True, default=repr)
    return s if len(s) < 240 else s[:240] + "..."


# ------------------------------------------------------------------ data snapshots


def _cell(x):
    try:
        import pandas as pd

        if x is None:
            return "None"
        if x is pd.NaT:
            return "NaT"
        if x is pd.NA:
            return "<NA>"
    except Exception:
        pass
    if isinstance(x, float) and math.isnan(x):
        return "nan"
    return f"{type(x).__name__}:{x!r}"


def snapshot(obj, with_ids=False):
    """Value snapshot of a pandas / polars object (JSON-able).  Cell-wise with NaN==NaN,
    dtypes, labels and order, index values/names/dtype/type, name, attrs."""
    import pandas as pd

    def index_snap(ix):
        d = {"type": type(ix).__name__, "dtype": str(ix.dtype) if not isinstance(ix, pd.MultiIndex) else
             [str(t) for t in ix.dtypes], "names": [repr(n) for n in ix.names], "values": [_cell(v) if not isinstance(v, tuple)
             else [_cell(u) for u in v] for v in ix.tolist()]}
        if isinstance(ix, pd.RangeIndex):
            d["range"] = [ix.start, ix.stop, ix.step]
        if with_ids:
            d["id"] = id(ix)
        return d

    if isinstance(obj, pd.DataFrame):
        d = {"kind": "pd.DataFrame", "columns": [repr(c) for c in obj.columns],
             "dtypes": [str(t) for t in obj.dtypes],
             "cells": [[_cell(v) for v in obj.iloc[:, i].tolist()] for i in range(obj.shape[1])],
             "index": index_snap(obj.index), "col_index": index_snap(obj.columns), "attrs": repr(dict(obj.attrs))}
        if with_ids:
            d["id"] = id(obj)
        return d
    if isinstance(obj, pd.Series):
        d = {"kind": "pd.Series", "name": repr(obj.name), "dtype": str(obj.dtype),
             "cells": [_cell(v) for v in obj.tolist()], "index": index_snap(obj.index), "attrs": repr(dict(obj.attrs))}
        if with_ids:
            d["id"] = id(obj)
        return d
    if isinstance(obj, pd.Index):
        return {"kind": "pd.Index", **index_snap(obj)}
    try:
        import polars as pl

        if isinstance(obj, pl.LazyFrame):
            df = obj.collect()
            return {"kind": "pl.LazyFrame", "schema": [[k, str(v)] for k, v in df.schema.items()],
                    "cells": [[_cell(v) for v in df[c].to_list()] for c in df.columns]}
        if isinstance(obj, pl.DataFrame):
            return {"kind": "pl.DataFrame", "schema": [[k, str(v)] for k, v in obj.schema.items()],
                    "cells": [[_cell(v) for v in obj[c].to_list()] for c in obj.columns]}
        if isinstance(obj, pl.Series):
            return {"kind": "pl.Series", "name": obj.name, "dtype": str(obj.dtype), "cells": [_cell(v) for v in obj.to_list()]}
    except ImportError:
        pass
    return {"kind": type(obj).__name__, "repr": repr(obj)[:500]}


def kind_of(obj):
    import pandas as pd

    if isinstance(obj, pd.DataFrame):
        return "pd.DataFrame"
    if isinstance(obj, pd.Series):
        return "pd.Series"
    if isinstance(obj, pd.MultiIndex):
        return "pd.MultiIndex"
    if isinstance(obj, pd.Index):
        return "pd.Index"
    try:
        import polars as pl

        if isinstance(obj, pl.LazyFrame):
            return "pl.LazyFrame"
        if isinstance(obj, pl.DataFrame):
            return "pl.DataFrame"
    except ImportError:
        pass
    return type(obj).__name__


def config_state():
    from pandera import config

    def dump(x):
        d = dataclasses.asdict(x)
        vd = d.get("validation_depth")
        d["validation_depth"] = None if vd is None else vd.name
        return d

    return {"context": dump(config._CONTEXT_CONFIG), "global": dump(config.CONFIG)}


# --------------------------------------------------------------- outcome normalising


def outcome(fn):
    """Run fn() and normalise what happened.
    kind: ok | SchemaError | SchemaErrors | usage | internal"""
    import pandera.errors as pe

    try:
        v = fn()
        return {"kind": "ok", "value": v}
    except pe.SchemaErrors as e:
        reasons = sorted({getattr(x.reason_code, "name", str(x.reason_code)) for x in e.schema_errors})
        return {"kind": "SchemaErrors", "reasons": reasons, "exc": e}
    except pe.SchemaError as e:
        return {"kind": "SchemaError", "reasons": [getattr(e.reason_code, "name", str(e.reason_code))], "exc": e}
    except (pe.SchemaDefinitionError, pe.SchemaInitError, pe.BackendNotFoundError) as e:
        return {"kind": "usage", "exc_type": type(e).__name__, "msg": str(e)[:300], "exc": e}
    except Exception as e:
        import traceback

        tb = traceback.extract_tb(e.__traceback__)
        inner = next((f"{fr.filename.split('/pandera/')[-1]}:{fr.name}" for fr in reversed(tb) if "/pandera/" in fr.filename),
                     "?")
        return {"kind": "internal", "exc_type": type(e).__name__, "msg": str(e)[:300], "where": inner, "exc": e}


def verdict(fn):
    """'accept' | 'reject' | 'usage' | 'internal:<Type>'"""
    o = outcome(fn)
    if o["kind"] == "ok":
        return "accept"
    if o["kind"] in ("SchemaError", "SchemaErrors"):
        return "reject"
    if o["kind"] == "usage":
        return "usage"
    return "internal:" + o["exc_type"]
