"""Common runner machinery: families, shard execution, evidence, known findings, replay.

A *property module* (harness/props/cXX.py) exposes

    PROPERTY = "C01"
    RULE     = "how cases are generated and what makes one non-trivial"
    FAMILIES = [Family(...), ...]
    selftest() (optional)  -> raises HarnessError when the harness itself is off

A *case* is a JSON-able value.  ``Family.evaluate(case)`` returns an ``Eval`` whose
``discs`` are the discrepancies between pandera and the oracle for that case.  The
runner never lets Hypothesis stop at the first failing case: discrepancies are
collected into buckets (collect-then-shrink), matched against the committed
known-findings file, and only *new* buckets are shrunk and reported as
``VIOLATION property=<id> replay=<path>``.
"""
from __future__ import annotations

import hashlib
import json
import math
import os
import sys
import time
import traceback
from collections import Counter
from dataclasses import dataclass, field
from typing import Any, Callable, Iterable, Optional

ROOT = os.path.dirname(os.path.dirname(os.path.abspath(__file__)))
EVIDENCE_DIR = os.environ.get("VERIF_EVIDENCE_DIR") or os.path.join(ROOT, "evidence")
REPLAY_DIR = os.path.join(ROOT, "replays")
OUT_DIR = os.environ.get("VERIF_OUT_DIR") or os.path.join(ROOT, "out")
KNOWN_FILE = os.path.join(ROOT, "known_findings.json")
EVIDENCE_SCHEMA = os.path.join(ROOT, "harness", "EVIDENCE.schema.json")


class HarnessError(Exception):
    """The harness (not pandera) is wrong: exit 2, never a VIOLATION."""


# --------------------------------------------------------------------------- data


@dataclass
class Disc:
    """One discrepancy between pandera and the oracle."""

    kind: str  # bucket key: short, stable, no data values
    detail: Any = None  # JSON-able explanation (expected / observed)

    def to_json(self):
        return {"kind": self.kind, "detail": jsonable(self.detail)}


@dataclass
class Eval:
    nontrivial: bool = False
    labels: list = field(default_factory=list)
    discs: list = field(default_factory=list)
    skipped: Optional[str] = None  # case outside the sound domain: reason (counted, not scored)
    executions: int = 1  # runs of the code under test performed for this case (e.g. one per injected fault point)

    def add(self, kind, detail=None):
        self.discs.append(Disc(kind, detail))


def jsonable(x, depth=0):
    """Best-effort conversion of anything into JSON-able data (for details/samples)."""
    if x is None or isinstance(x, (bool, int, str)):
        return x
    if depth > 40:
        return repr(x)[:200]
    if isinstance(x, float):
        if math.isnan(x):
            return "NaN"
        if math.isinf(x):
            return "inf" if x > 0 else "-inf"
        return x
    if isinstance(x, dict):
        return {str(k): jsonable(v, depth + 1) for k, v in x.items()}
    if isinstance(x, (list, tuple, set, frozenset)):
        items = list(x)
        if isinstance(x, (set, frozenset)):
            items = sorted(items, key=repr)
        return [jsonable(v, depth + 1) for v in items]
    return repr(x)[:300]


def canon(case) -> str:
    return json.dumps(jsonable(case), sort_keys=True, separators=(",", ":"))


def case_hash(case) -> str:
    return hashlib.blake2b(canon(case).encode(), digest_size=8).hexdigest()


def slug(s: str) -> str:
    out = "".join(c if c.isalnum() else "-" for c in s)
    while "--" in out:
        out = out.replace("--", "-")
    return out.strip("-")[:80] or "x"


# ----------------------------------------------------------------------- families


class Family:
    """A generated sub-check of a property.

    strategy : () -> hypothesis strategy of JSON cases (or None)
    enumerate: (tier) -> iterable of JSON cases, for finite spaces (or None)
    evaluate : case -> Eval
    n_quick / n_thorough : number of generated cases *per shard*
    shards_quick / shards_thorough : number of worker processes
    """

    def __init__(
        self,
        name: str,
        evaluate: Callable[[Any], Eval],
        strategy: Optional[Callable[[], Any]] = None,
        enumerate: Optional[Callable[[str], Iterable]] = None,
        n_quick: int = 200,
        n_thorough: int = 1000,
        shards_quick: int = 4,
        shards_thorough: int = 16,
        required_labels: Iterable[str] = (),
        exhaustive: bool = False,
        setup: Optional[Callable[[], None]] = None,
    ):
        self.name = name
        self.evaluate = evaluate
        self.strategy = strategy
        self.enumerate = enumerate
        self.n_quick, self.n_thorough = n_quick, n_thorough
        self.shards_quick, self.shards_thorough = shards_quick, shards_thorough
        self.required_labels = tuple(required_labels)
        self.exhaustive = exhaustive
        self.setup = setup

    def n(self, tier):
        return self.n_quick if tier == "quick" else self.n_thorough

    def shards(self, tier):
        return self.shards_quick if tier == "quick" else self.shards_thorough

    # -- shard execution ---------------------------------------------------
    def run_shard(self, sc: "ShardCtx", tier: str, shard: int, nshards: int):
        if self.setup:
            self.setup()
        if self.enumerate is not None:
            for i, case in enumerate_shard(self.enumerate(tier), shard, nshards):
                sc.record(self, case)
            return
        import hypothesis
        from hypothesis import HealthCheck, Phase, given, settings

        strat = self.strategy()
        n = self.n(tier)

        @hypothesis.seed(sc.seed)
        @settings(
            max_examples=n,
            phases=[Phase.generate],
            database=None,
            deadline=None,
            derandomize=False,
            report_multiple_bugs=False,
            suppress_health_check=list(HealthCheck),
        )
        @given(strat)
        def body(case):
            sc.record(self, case)

        body()


def enumerate_shard(it, shard, nshards):
    for i, case in enumerate(it):
        if i % nshards == shard:
            yield i, case


class ShardCtx:
    """Collects what one worker process explored."""

    MAX_SAMPLES = 4

    def __init__(self, pid: str, seed: int, budget_s: float):
        self.pid = pid
        self.seed = seed
        self.t0 = time.time()
        self.budget_s = budget_s
        self.evaluations = 0
        self.executions = 0
        self.nontrivial = set()
        self.all_hashes = set()
        self.labels = Counter()
        self.samples = []
        self.label_samples = {}
        self.buckets = {}  # (known_id|None, kind) -> dict
        self.skipped = Counter()
        self.harness_errors = []
        self.budget_exhausted = False

    def record(self, fam: Family, case):
        if self.budget_s and time.time() - self.t0 > self.budget_s:
            self.budget_exhausted = True
            return
        from . import known

        self.evaluations += 1
        h = case_hash(case)
        try:
            ev = fam.evaluate(case)
        except HarnessError:
            raise
        except Exception:  # a bug in the harness, never a violation
            tb = traceback.format_exc()
            if len(self.harness_errors) < 5:
                self.harness_errors.append({"case": jsonable(case), "traceback": tb[-3000:]})
            return
        if ev.skipped:
            self.skipped[ev.skipped] += 1
            return
        self.all_hashes.add(h)
        self.executions += getattr(ev, "executions", 1)
        if ev.nontrivial:
            self.nontrivial.add(h)
        for lab in ev.labels:
            self.labels[lab] += 1
            if lab not in self.label_samples and len(self.label_samples) < 12:
                self.label_samples[lab] = jsonable(case)
        if len(self.samples) < self.MAX_SAMPLES and (ev.nontrivial or self.evaluations > 50):
            self.samples.append({"family": fam.name, "case": jsonable(case), "labels": list(ev.labels)})
        for d in ev.discs:
            kid = known.match(self.pid, fam.name, case, d)
            key = (kid, d.kind)
            b = self.buckets.get(key)
            size = len(canon(case))
            if b is None:
                self.buckets[key] = {
                    "known": kid, "kind": d.kind, "count": 1, "family": fam.name,
                    "case": jsonable(case), "detail": jsonable(d.detail),
                    "seed": self.seed, "size": size,
                }
            else:
                b["count"] += 1
                if size < b["size"]:
                    b.update(case=jsonable(case), detail=jsonable(d.detail), seed=self.seed, size=size)

    def result(self):
        return {
            "evaluations": self.evaluations,
            "executions": self.executions,
            "nontrivial": sorted(self.nontrivial),
            "distinct": len(self.all_hashes),
            "labels": dict(self.labels),
            "samples": self.samples,
            "label_samples": self.label_samples,
            "buckets": list(self.buckets.values()),
            "skipped": dict(self.skipped),
            "harness_errors": self.harness_errors,
            "budget_exhausted": self.budget_exhausted,
        }


# ------------------------------------------------------------------ worker entry


def load_module(pid: str):
    import importlib

    return importlib.import_module(f"harness.props.{pid.lower()}")


def shard_worker(args):
    pid, fam_name, tier, seed, shard, nshards, budget_s = args
    import warnings

    warnings.filterwarnings("ignore")
    try:
        mod = load_module(pid)
        fam = next(f for f in mod.FAMILIES if f.name == fam_name)
        sc = ShardCtx(pid, seed * 1000 + shard, budget_s)
        fam.run_shard(sc, tier, shard, nshards)
        return sc.result()
    except HarnessError as e:
        return {"fatal": f"HarnessError: {e}\n{traceback.format_exc()[-3000:]}"}
    except Exception:
        return {"fatal": traceback.format_exc()[-4000:]}


# ------------------------------------------------------------------ known findings


def load_known():
    """known_findings.json is the committed file; known/<ID>.json fragments (same layout) are merged in
    while a property's check is being developed (tools/merge_known.py folds them into the main file)."""
    import glob

    out = {"known": [], "fixed": []}
    paths = ([KNOWN_FILE] if os.path.exists(KNOWN_FILE) else []) + sorted(glob.glob(os.path.join(ROOT, "known", "*.json")))
    for p in paths:
        with open(p) as f:
            d = json.load(f)
        out["known"] += d.get("known", [])
        out["fixed"] += d.get("fixed", [])
    return out


def known_ids(pid=None):
    return {
        k["id"] for k in load_known().get("known", []) if pid is None or k["property"] == pid
    }


# ------------------------------------------------------------------------ evidence


def write_evidence(pid, ev: dict):
    os.makedirs(EVIDENCE_DIR, exist_ok=True)
    path = os.path.join(EVIDENCE_DIR, f"{pid}.json")
    try:
        import jsonschema

        with open(EVIDENCE_SCHEMA) as f:
            schema = json.load(f)
        jsonschema.validate(ev, schema)
    except ImportError:
        pass
    tmp = path + ".tmp"
    with open(tmp, "w") as f:
        json.dump(ev, f, indent=1, sort_keys=True)
        f.write("\n")
    os.replace(tmp, path)
    return path
