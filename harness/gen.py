"""Hypothesis strategies for (SchemaSpec, TableSpec) pairs: "data first, then a schema derived
from it, then mutate".

Construction, not rejection: a table is drawn from small value pools (so duplicates, nulls and
boundary hits are frequent); each schema column is then derived *from the data* with check
arguments placed on / just inside / just outside the observed min, max and value set, so that
roughly half of the pairs conform and the other half violate one or a few constraints by the
smallest possible margin.  Column presence / order / extra columns / dtype mismatches / duplicate
labels / index kinds are first-class mutators.
"""
from __future__ import annotations

from hypothesis import strategies as st

NAMES = ["a", "b", "c", "ab", "x1", "x2", "b2"]
REGEXES = ["^x", "a", "^b", "x1|x2", "^.$", "2$", "^(a|c)$", "b"]
INT_POOL = [-2, -1, 0, 1, 2, 3, 4, 5]
FLOAT_POOL = [-1.5, -1.0, 0.0, 0.5, 1.0, 1.5, 2.0, 3.0]
STR_POOL = ["a", "b", "ab", "ba", "", "aa", "abc", "B", "cb", "a1", "a12", "a b"]
DAY_POOL = [0, 1, 2, 3, 4, 5]
PATTERNS = ["a", "^a", "a|b", "[ab]+", "b$", ".", "^(a|b)$", "x?", "^a.*c$", "(ab)+",
            "\\d", "\\d\\d", "\\s", "\\w\\w", "a\\.b"]  # (classes / escapes spelled with a backslash only)

PHYS_WEIGHTED = (["int64"] * 5 + ["float64"] * 5 + ["object"] * 4 + ["bool"] * 2 + ["datetime64[ns]"] * 2
                 + ["int32", "float32", "Int64", "string"])
ACCEPTED_TAGS = {  # phys -> schema dtype tags that accept it
    "int64": ["int64", "int64", "Int64"], "int32": ["int32"], "float64": ["float64"], "float32": ["float32"],
    "bool": ["bool"], "object": ["str", "str", "object"], "datetime64[ns]": ["datetime64[ns]"],
    "Int64": ["Int64", "int64"], "string": ["string", "str"],
}
ALL_TAGS = ["int64", "int32", "float64", "float32", "bool", "str", "object", "datetime64[ns]", "Int64", "string"]


def _pool(phys):
    return {"int64": INT_POOL, "int32": INT_POOL, "Int64": INT_POOL, "float64": FLOAT_POOL, "float32": FLOAT_POOL,
            "bool": [True, False], "datetime64[ns]": DAY_POOL, "string": STR_POOL, "object": STR_POOL}[phys]


def _nullable_phys(phys):
    return phys in ("float64", "float32", "object", "datetime64[ns]", "Int64", "string")


@st.composite
def cells_strategy(draw, phys, n, mixed_ok=True, null_rate=None):
    pool = _pool(phys)
    elems = st.sampled_from(pool)
    if phys == "object" and mixed_ok and draw(st.integers(0, 9)) == 0:
        elems = st.one_of(st.sampled_from(STR_POOL), st.sampled_from(INT_POOL))
    if _nullable_phys(phys) and draw(st.integers(0, 2)) == 0:
        elems = st.one_of(elems, elems, elems, st.none())
    return draw(st.lists(elems, min_size=n, max_size=n))


def _kindof(phys):
    if phys in ("int64", "int32", "Int64"):
        return "int"
    if phys in ("float64", "float32"):
        return "float"
    if phys == "datetime64[ns]":
        return "day"
    if phys == "bool":
        return "bool"
    return "str"


@st.composite
def derived_check(draw, phys, cells, allow_ignore_na_false=True):
    """A built-in check whose arguments sit on the boundary of the observed data."""
    kind = _kindof(phys)
    vals = [c for c in cells if c is not None and (kind != "str" or isinstance(c, str))]
    cs = {}
    if kind in ("int", "float", "day"):
        pool = _pool(phys)
        lo, hi = (min(vals), max(vals)) if vals else (pool[0], pool[-1])
        step = 0.5 if kind == "float" else 1
        near = [lo - step, lo, lo + step, hi - step, hi, hi + step]
        arg = st.one_of(st.sampled_from(near), st.sampled_from(pool))
        k = draw(st.sampled_from(["equal_to", "not_equal_to", "greater_than", "greater_than_or_equal_to", "less_than",
                                  "less_than_or_equal_to", "in_range", "in_range", "isin", "notin",
                                  "unique_values_eq"]))
        if k in ("equal_to", "not_equal_to"):
            cs = {"kind": k, "args": {"value": draw(arg)}}
        elif k in ("greater_than", "greater_than_or_equal_to"):
            cs = {"kind": k, "args": {"min_value": draw(arg)}}
        elif k in ("less_than", "less_than_or_equal_to"):
            cs = {"kind": k, "args": {"max_value": draw(arg)}}
        elif k == "in_range":
            a, b = draw(arg), draw(arg)
            imin, imax = draw(st.booleans()), draw(st.booleans())
            if a == b:  # the constructor rejects empty intervals
                imin = imax = True
            cs = {"kind": k, "args": {"min_value": min(a, b), "max_value": max(a, b),
                                      "include_min": imin, "include_max": imax}}
        else:
            cs = _set_check(draw, k, vals, pool)
    elif kind == "bool":
        k = draw(st.sampled_from(["equal_to", "not_equal_to", "isin", "notin"]))
        if k in ("equal_to", "not_equal_to"):
            cs = {"kind": k, "args": {"value": draw(st.booleans())}}
        else:
            cs = _set_check(draw, k, vals, [True, False])
    else:
        k = draw(st.sampled_from(["equal_to", "not_equal_to", "greater_than", "less_than_or_equal_to", "isin", "notin",
                                  "str_matches", "str_matches", "str_contains", "str_startswith", "str_endswith",
                                  "str_length", "str_length", "unique_values_eq"]))
        sarg = st.one_of(st.sampled_from(vals) if vals else st.sampled_from(STR_POOL), st.sampled_from(STR_POOL))
        if k in ("equal_to", "not_equal_to"):
            cs = {"kind": k, "args": {"value": draw(sarg)}}
        elif k == "greater_than":
            cs = {"kind": k, "args": {"min_value": draw(sarg)}}
        elif k == "less_than_or_equal_to":
            cs = {"kind": k, "args": {"max_value": draw(sarg)}}
        elif k in ("str_matches", "str_contains"):
            cs = {"kind": k, "args": {"pattern": draw(st.sampled_from(PATTERNS))}}
            if draw(st.integers(0, 4)) == 0:  # a compiled pattern, with or without flags
                cs["args"]["flags"] = draw(st.sampled_from([[], ["IGNORECASE"], ["IGNORECASE"], ["DOTALL"], ["MULTILINE"]]))
                if "IGNORECASE" in cs["args"]["flags"]:
                    cs["args"]["pattern"] = cs["args"]["pattern"].upper() if draw(st.booleans()) else cs["args"]["pattern"]
        elif k in ("str_startswith", "str_endswith"):
            cs = {"kind": k, "args": {"string": draw(st.sampled_from(["a", "b", "ab", "", "c"]))}}
        elif k == "str_length":
            lens = [len(v) for v in vals] or [0, 2]
            near = [min(lens) - 1, min(lens), min(lens) + 1, max(lens) - 1, max(lens), max(lens) + 1]
            near = near + [0, 0, 1]  # the smallest bounds are where `x or default` style shortcuts go wrong
            a = draw(st.one_of(st.none(), st.sampled_from(near)))
            b = draw(st.one_of(st.none(), st.sampled_from(near)))
            if a is None and b is None:
                a = min(lens)
            if a is not None and b is not None and a > b:
                a, b = b, a
            cs = {"kind": k, "args": {"min_value": None if a is None else max(a, 0), "max_value": None if b is None else max(b, 0)}}
        else:
            cs = _set_check(draw, k, vals, STR_POOL)
    r = draw(st.integers(0, 5))
    if r == 0 and allow_ignore_na_false:
        if kind in ("float", "day") or cs["kind"] in ("str_matches", "str_contains", "str_startswith", "str_endswith"):
            cs["ignore_na"] = False
    elif r == 1:
        cs["ignore_na"] = True
    return cs


def _set_check(draw, k, vals, pool):
    distinct = list(dict.fromkeys(vals))
    mode = draw(st.integers(0, 3))
    base = list(distinct)
    if mode == 1 and base:
        base.pop(draw(st.integers(0, len(base) - 1)))
    elif mode == 2:
        base.append(draw(st.sampled_from(pool)))
        base = list(dict.fromkeys(base))
    elif mode == 3:
        base = list(dict.fromkeys(draw(st.lists(st.sampled_from(pool), min_size=1, max_size=3))))
    if not base:
        base = [pool[0]]
    if k == "isin":
        return {"kind": k, "args": {"allowed_values": base}}
    if k == "notin":
        if mode == 0:  # something not in the data: satisfied
            others = [p for p in pool if p not in distinct] or [pool[0]]
            base = [others[0]]
        return {"kind": k, "args": {"forbidden_values": base}}
    return {"kind": k, "args": {"values": base}}


@st.composite
def derived_field(draw, phys, cells, max_checks=2, conform_bias=True):
    """nullable / unique / dtype / checks derived from the data of one field."""
    has_null = any(c is None for c in cells)
    keys = [repr(c) for c in cells]
    has_dup = len(set(keys)) != len(keys)
    r = draw(st.integers(0, 9))
    if r < 8:
        dtype = draw(st.sampled_from(ACCEPTED_TAGS[phys]))
    elif r == 8:
        dtype = None
    else:
        dtype = draw(st.sampled_from(ALL_TAGS))
    nullable = draw(st.booleans()) if not has_null else draw(st.integers(0, 3)) > 0
    unique = draw(st.integers(0, 3)) == 0 if not has_dup else draw(st.integers(0, 5)) == 0
    fs = {"dtype": dtype, "nullable": nullable, "unique": unique, "checks": []}
    if unique and draw(st.booleans()):
        fs["report_duplicates"] = draw(st.sampled_from(["all", "exclude_first", "exclude_last"]))
    if dtype is not None and dtype != "object":
        ncheck = draw(st.sampled_from([0, 0, 1, 1, 1, 2][: 4 + max_checks]))
        eff_phys = phys
        allow_f = dtype in ("float64", "float32", "datetime64[ns]", "str")
        fs["checks"] = [draw(derived_check(eff_phys, cells, allow_ignore_na_false=allow_f)) for _ in range(ncheck)]
    return fs


@st.composite
def index_table(draw, n, allow_multi=True):
    r = draw(st.integers(0, 9))
    if r < 5:
        return None
    if r < 9 or not allow_multi:
        phys = draw(st.sampled_from(["int64", "int64", "object", "float64", "datetime64[ns]"]))
        unique_labels = draw(st.booleans())
        if unique_labels and phys in ("int64",):
            cells = draw(st.permutations(list(range(-2, 6)))).copy()[:n] if n <= 8 else list(range(n))
        else:
            cells = draw(cells_strategy(phys, n, mixed_ok=False))
        return {"name": draw(st.sampled_from([None, "i", "j"])), "phys": phys, "cells": list(cells)}
    l1 = draw(cells_strategy("int64", n))
    phys2 = draw(st.sampled_from(["object", "int64"]))
    l2 = draw(cells_strategy(phys2, n, mixed_ok=False))
    names = draw(st.sampled_from([["i", "j"], ["j", "i"], ["i", "k"]]))
    return {"multi": [{"name": names[0], "phys": "int64", "cells": l1}, {"name": names[1], "phys": phys2, "cells": l2}]}


@st.composite
def index_spec(draw, ixtable, n):
    r = draw(st.integers(0, 9))
    if ixtable is None:
        if r < 8:
            return None
        # index schema on a default RangeIndex
        fs = draw(derived_field("int64", list(range(n)), max_checks=1))
        fs["name"] = draw(st.sampled_from([None, None, "i"]))
        return fs
    if "multi" in ixtable:
        if r == 0:
            return None
        if r == 1:  # flat Index schema on a MultiIndex
            fs = draw(derived_field("int64", ixtable["multi"][0]["cells"], max_checks=0))
            fs["name"] = None
            return fs
        levels = []
        for l in ixtable["multi"]:
            fs = draw(derived_field(l["phys"], l["cells"], max_checks=1))
            fs["name"] = l["name"]
            levels.append(fs)
        if draw(st.integers(0, 4)) == 0:
            levels.reverse()
        if draw(st.integers(0, 5)) == 0:
            levels = levels[:1]
        return {"multi": levels, "strict": draw(st.booleans()), "ordered": draw(st.booleans())}
    if r < 2:
        return None
    if r == 2:  # MultiIndex schema on a flat index
        return {"multi": [{"name": "i", "dtype": "int64", "checks": []}, {"name": "j", "dtype": "int64", "checks": []}],
                "strict": False, "ordered": True}
    fs = draw(derived_field(ixtable["phys"], ixtable["cells"], max_checks=1))
    fs["name"] = draw(st.sampled_from([ixtable["name"], ixtable["name"], None, "i", "zz"]))
    return fs


@st.composite
def frame_case(draw, max_rows=6, max_cols=4, allow_index=True, allow_dup_labels=True, allow_frame_checks=True):
    """-> {"spec": SchemaSpec(dataframe), "table": TableSpec}"""
    n = draw(st.integers(0, max_rows))
    ncols = draw(st.integers(0, max_cols))
    names = draw(st.permutations(NAMES))[:ncols]
    tcols = []
    for nm in names:
        phys = draw(st.sampled_from(PHYS_WEIGHTED))
        tcols.append({"name": nm, "phys": phys, "cells": draw(cells_strategy(phys, n))})
    ixt = draw(index_table(n)) if allow_index else None
    table = {"columns": tcols, "index": ixt}
    if not tcols and ixt is None:
        table["nrows"] = n

    scols = []
    for tc in tcols:
        r = draw(st.integers(0, 9))
        if r == 0:
            continue  # undeclared (extra) column
        fs = draw(derived_field(tc["phys"], tc["cells"]))
        fs["name"] = tc["name"]
        fs["required"] = draw(st.integers(0, 5)) > 0
        scols.append(fs)
    # declared but absent columns
    for _ in range(draw(st.sampled_from([0, 0, 0, 1, 1, 2]))):
        free = [x for x in NAMES + ["zz"] if x not in names and x not in [c["name"] for c in scols]]
        if not free:
            break
        absent = {"name": draw(st.sampled_from(free)), "dtype": draw(st.sampled_from(["int64", "str", None])),
                  "nullable": False, "unique": False, "checks": [], "required": draw(st.integers(0, 2)) == 0}
        if absent["dtype"] and draw(st.integers(0, 2)) == 0:
            # (a default on a column that is not there has nothing to fill - and nothing to trip over)
            absent["default"] = 1 if absent["dtype"] == "int64" else "x"
        scols.append(absent)
    # a regex column replaces / adds
    if names and draw(st.integers(0, 4)) == 0:
        rx = draw(st.sampled_from(REGEXES))
        import re

        matched = [tc for tc in tcols if re.match(rx, tc["name"])]
        if matched:
            fs = draw(derived_field(matched[0]["phys"], [c for tc in matched for c in tc["cells"]] if
                                    len({tc["phys"] for tc in matched}) == 1 else matched[0]["cells"], max_checks=1))
        else:
            fs = {"dtype": "int64", "nullable": False, "unique": False, "checks": []}
        fs.update(name=rx, regex=True, required=draw(st.integers(0, 3)) > 0)
        if draw(st.booleans()):
            scols = [c for c in scols if not re.match(rx, c["name"])]
        if rx not in [c["name"] for c in scols]:
            scols.insert(draw(st.integers(0, len(scols))), fs)
    if draw(st.integers(0, 3)) == 0 and len(scols) > 1:
        scols = list(draw(st.permutations(scols)))
    spec = {"kind": "dataframe", "columns": scols}
    spec["strict"] = draw(st.sampled_from([False, False, False, True, True, "filter"]))
    spec["ordered"] = draw(st.integers(0, 3)) == 0
    plain = [c["name"] for c in scols if not c.get("regex")]
    if plain and draw(st.integers(0, 4)) == 0:
        k = draw(st.integers(1, min(3, len(plain))))
        spec["unique"] = list(draw(st.permutations(plain)))[:k]
        if draw(st.booleans()):
            spec["report_duplicates"] = draw(st.sampled_from(["all", "exclude_first", "exclude_last"]))
    if draw(st.integers(0, 7)) == 0:
        spec["unique_column_names"] = True
    if allow_dup_labels and len(tcols) >= 2 and draw(st.integers(0, 14)) == 0:
        i = draw(st.integers(1, len(tcols) - 1))
        j = draw(st.integers(0, i - 1))
        tcols[i]["name"] = tcols[j]["name"]
    if allow_frame_checks and tcols and all(tc["phys"] in ("int64", "int32", "float64", "float32") for tc in tcols) \
            and draw(st.integers(0, 2)) == 0:
        allc = [c for tc in tcols for c in tc["cells"]]
        phys = "float64" if any(tc["phys"].startswith("float") for tc in tcols) else "int64"
        cs = draw(derived_check(phys, allc, allow_ignore_na_false=False))
        if cs["kind"] != "unique_values_eq":
            spec["checks"] = [cs]
    spec["index"] = draw(index_spec(ixt, n)) if allow_index else None
    return {"spec": spec, "table": table}


@st.composite
def series_case(draw, max_rows=6, allow_index=True):
    n = draw(st.integers(0, max_rows))
    phys = draw(st.sampled_from(PHYS_WEIGHTED))
    name = draw(st.sampled_from([None, "a", "b"]))
    tc = {"name": name, "phys": phys, "cells": draw(cells_strategy(phys, n))}
    ixt = draw(index_table(n)) if allow_index else None
    fs = draw(derived_field(phys, tc["cells"], max_checks=3))
    fs["name"] = draw(st.sampled_from([name, name, None, "a", "zz"]))
    spec = {"kind": "series", "columns": [fs], "index": draw(index_spec(ixt, n)) if allow_index else None}
    return {"spec": spec, "table": {"columns": [tc], "index": ixt}}


def case_strategy(**kw):
    return st.one_of(frame_case(**kw), frame_case(**kw), frame_case(**kw), series_case())


# ------------------------------------------------------------------------------ repair


def repair(case, max_iter=12):
    """Relax the schema (never the data) until the reference model accepts: yields conforming pairs
    that still carry many tight constraints.  Deterministic function of the case."""
    import copy

    from . import refmodel

    case = copy.deepcopy(case)
    spec, table = case["spec"], case["table"]
    tcols = {c["name"]: c for c in table["columns"]}

    def fix_field(fs, err, phys):
        if err.reason == "WRONG_DATATYPE" or err.reason == "<check-on-wrong-dtype>":
            fs["dtype"] = ACCEPTED_TAGS[phys][0] if phys else None
            fs["checks"] = []
        elif err.reason == "SERIES_CONTAINS_NULLS":
            fs["nullable"] = True
        elif err.reason == "SERIES_CONTAINS_DUPLICATES":
            fs["unique"] = False
        elif err.reason == "WRONG_FIELD_NAME":
            fs["name"] = None
        elif err.reason == "DATAFRAME_CHECK":
            ci = err.check[0]
            if ci < len(fs["checks"]):
                fs["checks"] = fs["checks"][:ci] + fs["checks"][ci + 1:]
            else:
                fs["checks"] = []

    for _ in range(max_iter):
        try:
            ref = refmodel.ref_validate(spec, table)
        except refmodel.Undefined:
            return case
        if ref.accept:
            return case
        e = ref.errors[0]
        w = e.where
        if spec.get("kind") == "series":
            if w == "<index>" or (isinstance(w, tuple) and w[0] == "<index>"):
                _fix_index(spec, table, e, fix_field)
            else:
                fix_field(spec["columns"][0], e, table["columns"][0]["phys"])
            continue
        if e.reason == "COLUMN_NOT_IN_SCHEMA":
            spec["strict"] = False
        elif e.reason == "COLUMN_NOT_ORDERED" and w is None:
            spec["ordered"] = False
        elif e.reason == "DUPLICATE_COLUMN_LABELS":
            spec["unique_column_names"] = False
        elif e.reason == "COLUMN_NOT_IN_DATAFRAME" and w is None:
            for c in spec["columns"]:
                if c["name"] == e.check[1]:
                    c["required"] = False
        elif e.reason == "DUPLICATES" and w is None:
            spec["unique"] = None
        elif e.reason == "INVALID_COLUMN_NAME":
            for c in spec["columns"]:
                if c.get("regex") and c["name"] == w:
                    c["required"] = False
        elif w is None:  # frame-level check
            spec["checks"] = []
        elif w == "<index>" or (isinstance(w, tuple) and w[0] == "<index>"):
            _fix_index(spec, table, e, fix_field)
        else:
            import re

            if spec.get("dtype"):
                spec["dtype"] = None
            for c in spec["columns"]:
                if (c.get("regex") and re.match(c["name"], w)) or (not c.get("regex") and c["name"] == w):
                    fix_field(c, e, tcols[w]["phys"] if w in tcols else None)
    return case


def _fix_index(spec, table, e, fix_field):
    ixs, ixt = spec.get("index"), table.get("index")
    if ixs is None:
        return
    if e.reason in ("MISMATCH_INDEX",) or e.check == "multiindex-on-flat-index":
        spec["index"] = None
        return
    if "multi" in ixs:
        lvl = e.where[1] if isinstance(e.where, tuple) else None
        if e.reason == "COLUMN_NOT_IN_SCHEMA":
            ixs["strict"] = False
        elif e.reason == "COLUMN_NOT_ORDERED":
            ixs["ordered"] = False
        elif e.reason == "COLUMN_NOT_IN_DATAFRAME":
            spec["index"] = None
        elif e.reason == "DUPLICATES":
            ixs["unique"] = None
        else:
            for l in ixs["multi"]:
                if l.get("name") == lvl:
                    phys = next((t["phys"] for t in ixt["multi"] if t.get("name") == lvl), None)
                    fix_field(l, e, phys)
        return
    fix_field(ixs, e, (ixt or {"phys": "int64"})["phys"])


ROW_OPS = ["nullable", "unique", "check", "check", "check", "joint", "index-row", "framecheck", "framecheck2"]
ALL_OPS = ["nullable", "unique", "dtype", "check", "check", "strict", "ordered", "required", "joint", "index", "framecheck2"]


@st.composite
def tighten(draw, case, ops=None):
    """One schema-side mutation of a (usually conforming) pair: turns on / tightens a single constraint."""
    import copy

    case = copy.deepcopy(case)
    spec, table = case["spec"], case["table"]
    cols = spec["columns"]
    tc = {c["name"]: c for c in table["columns"]}
    op = draw(st.sampled_from(ops or ALL_OPS))
    plain = [c for c in cols if not c.get("regex") and c["name"] in tc]
    if op in ("nullable", "unique", "dtype", "check") and plain:
        c = draw(st.sampled_from(plain))
        t = tc[c["name"]]
        if op == "nullable":
            c["nullable"] = False
        elif op == "unique":
            c["unique"] = True
        elif op == "dtype":
            c["dtype"] = draw(st.sampled_from(ALL_TAGS))
            c["checks"] = []
        elif c.get("dtype") not in (None, "object") and t["phys"] in [p for p, tags in ACCEPTED_TAGS.items() if c["dtype"] in tags]:
            allow_f = c["dtype"] in ("float64", "float32", "datetime64[ns]", "str")
            c["checks"] = list(c.get("checks", [])) + [draw(derived_check(t["phys"], t["cells"], allow_ignore_na_false=allow_f))]
    elif op == "strict" and spec.get("kind", "dataframe") == "dataframe":
        spec["strict"] = True
    elif op == "ordered" and spec.get("kind", "dataframe") == "dataframe":
        spec["ordered"] = True
        if len(cols) > 1 and draw(st.booleans()):
            i = draw(st.integers(0, len(cols) - 2))
            cols[i], cols[i + 1] = cols[i + 1], cols[i]
    elif op == "required":
        for c in cols:
            if not c.get("required", True):
                c["required"] = True
                break
    elif op == "joint" and len(plain) >= 1 and spec.get("kind", "dataframe") == "dataframe":
        k = draw(st.integers(1, min(2, len(plain))))
        spec["unique"] = [c["name"] for c in plain[:k]]
    elif op == "framecheck" and spec.get("kind", "dataframe") == "dataframe" and table["columns"] and \
            all(t["phys"] in ("int64", "int32", "float64", "float32") for t in table["columns"]):
        allc = [c for t in table["columns"] for c in t["cells"]]
        phys = "float64" if any(t["phys"].startswith("float") for t in table["columns"]) else "int64"
        cs = draw(derived_check(phys, allc, allow_ignore_na_false=False))
        if cs["kind"] != "unique_values_eq":
            spec["checks"] = [cs]
    elif op == "framecheck2" and spec.get("kind", "dataframe") == "dataframe":
        # two (or three) user-written row-wise dataframe checks made by one factory: same code, other column / bound
        names = [t["name"] for t in table["columns"]]
        cands = [t for t in table["columns"] if t["phys"] in ("int64", "float64") and t["cells"]
                 and not any(c is None for c in t["cells"]) and names.count(t["name"]) == 1]
        if cands:
            picks = [draw(st.sampled_from(cands)) for _ in range(draw(st.integers(2, 3)))]
            checks = []
            for t in picks:
                lo, hi = min(t["cells"]), max(t["cells"])
                m = draw(st.sampled_from([lo, lo, hi, hi + 1, lo - 1]))
                checks.append({"kind": "col_ge", "args": {"column": t["name"], "min_value": m}})
            spec["checks"] = checks
    elif op == "index-row" and spec.get("index") and "multi" not in spec["index"]:
        ixs, ixt = spec["index"], table.get("index")
        if ixt is not None and "multi" not in ixt and ixs.get("dtype") not in (None, "object"):
            ixs["checks"] = [draw(derived_check(ixt["phys"], ixt["cells"], allow_ignore_na_false=False))]
    elif op == "index" and spec.get("index") and "multi" not in spec["index"]:
        which = draw(st.sampled_from(["unique", "name", "nullable"]))
        if which == "unique":
            spec["index"]["unique"] = True
        elif which == "name":
            spec["index"]["name"] = draw(st.sampled_from(["i", "j", "zz"]))
        else:
            spec["index"]["nullable"] = False
    return case


@st.composite
def int_labelled(draw, case):
    """The same pair with integer column labels 0, 1, 2, ... (a frame built from a numpy array): labels that are falsy
    (0) or not strings.  In the JSON case (and for the reference model) the labels stay digit strings; the builders turn
    them into integers (spec/table flag int_labels).  A regex column becomes a pattern over the digits."""
    import copy

    case = copy.deepcopy(case)
    spec, table = case["spec"], case["table"]
    if spec.get("kind", "dataframe") != "dataframe":
        return case
    names = []
    for t in table["columns"]:
        if t["name"] not in names:
            names.append(t["name"])
    for c in spec["columns"]:
        if not c.get("regex") and c["name"] not in names:
            names.append(c["name"])
    if not names:
        return case
    start = draw(st.sampled_from([0, 0, 0, 1]))
    m = {n: str(start + i) for i, n in enumerate(names)}
    for t in table["columns"]:
        t["name"] = m[t["name"]]
    tn = [t["name"] for t in table["columns"]]
    for c in spec["columns"]:
        if c.get("regex"):
            c["name"] = draw(st.sampled_from(["\\d+", "^[0-1]$", "^" + (tn[0] if tn else "0") + "$"]))
        else:
            c["name"] = m[c["name"]]
    seen, cols = set(), []
    for c in spec["columns"]:  # two regex columns may have been given the same pattern
        if c["name"] not in seen:
            seen.add(c["name"])
            cols.append(c)
    spec["columns"] = cols
    if spec.get("unique"):
        uq = spec["unique"]
        spec["unique"] = [m.get(x, x) for x in uq] if all(isinstance(x, str) for x in uq) else [[m.get(x, x) for x in g] for g in uq]
    spec["checks"] = [c for c in spec.get("checks", []) if c["kind"] != "col_ge"]
    spec["int_labels"] = table["int_labels"] = True
    return case


@st.composite
def repaired_case(draw, **kw):
    base = draw(case_strategy(**kw))
    r = draw(st.integers(0, 9))
    if r < 3:
        return base
    fixed = repair(base)
    out = fixed if r < 6 else draw(tighten(fixed))
    if draw(st.integers(0, 24)) == 0:
        return empty_decisive(draw, base)
    return out


def empty_decisive(draw, case):
    """The empty case, made decisive: the table loses every row, the schema is repaired to accept it, and one column
    gets a check on the column as a whole that no values cannot satisfy (unique_values_eq of a non-empty set) - or, half
    of the time, keeps only checks that no values satisfy trivially.  'Nothing to check' is not 'passes'."""
    import copy

    case = copy.deepcopy(case)
    table = case["table"]
    for t in table["columns"]:
        t["cells"] = []
    ix = table.get("index")
    if ix:
        for l in ix.get("multi", [ix]):
            l["cells"] = []
    if not table["columns"] and not ix:
        table["nrows"] = 0
    case = repair(case)
    tcs = {t["name"]: t for t in case["table"]["columns"]}
    cands = [c for c in case["spec"]["columns"] if not c.get("regex") and c["name"] in tcs
             and c.get("dtype") not in (None, "object") and c["dtype"] in ACCEPTED_TAGS.get(tcs[c["name"]]["phys"], [])]
    if case["spec"].get("kind") == "series":
        cands = [c for c in case["spec"]["columns"] if c.get("dtype") not in (None, "object")
                 and c["dtype"] in ACCEPTED_TAGS.get(case["table"]["columns"][0]["phys"], [])]
    if cands and draw(st.booleans()):
        c = draw(st.sampled_from(cands))
        phys = case["table"]["columns"][0]["phys"] if case["spec"].get("kind") == "series" else tcs[c["name"]]["phys"]
        if phys != "bool":
            c["checks"] = list(c.get("checks", [])) + [{"kind": "unique_values_eq", "args": {"values": [_pool(phys)[0]]}}]
    case["empty_decisive"] = True
    return case


# --------------------------------------------------------------------- parser options


def _rerepresent(draw, tc, dtype):
    """Re-encode the cells of a conforming column in another physical type that coerces back to `dtype`."""
    cells = tc["cells"]
    nn = [c for c in cells if c is not None]
    mode = draw(st.integers(0, 9))
    if dtype in ("int64", "int32", "Int64"):
        if mode < 4:
            return "object", [None if c is None else str(c) for c in cells]
        if mode < 7 :
            return "float64", [None if c is None else float(c) for c in cells]
        if mode < 8 and all(c in (0, 1) for c in nn) and not any(c is None for c in cells):
            return "bool", [bool(c) for c in cells]
        return "int32" if dtype != "int32" and not any(c is None for c in cells) else tc["phys"], cells
    if dtype in ("float64", "float32"):
        if mode < 4 and all(c == int(c) for c in nn) and not any(c is None for c in cells):
            return "int64", [int(c) for c in cells]
        if mode < 7:
            return "object", [None if c is None else str(c) for c in cells]
        return ("float32" if dtype == "float64" else "float64"), cells
    if dtype in ("str", "string"):
        if mode < 5 and nn and all(isinstance(c, str) and c.lstrip("-").isdigit() for c in nn) and not any(c is None for c in cells):
            return "int64", [int(c) for c in cells]
        return ("string" if tc["phys"] == "object" else "object"), cells
    if dtype == "bool":
        if not any(c is None for c in cells):
            return "int64", [int(c) for c in cells]
    return tc["phys"], cells


@st.composite
def parser_case(draw, **kw):
    """A conforming pair, de-conformed in ways the schema's parsing options repair (or fail to)."""
    import copy

    base = draw(case_strategy(allow_dup_labels=False, allow_frame_checks=False, **kw))
    case = copy.deepcopy(repair(base))
    spec, table = case["spec"], case["table"]
    kind = spec.get("kind", "dataframe")
    tcs = {c["name"]: c for c in table["columns"]}
    opts = []
    touched = set()
    plain = [c for c in spec["columns"] if not c.get("regex") and c["name"] in tcs]
    nops = draw(st.integers(1, 3))
    # (rare shape: when the pair has a MultiIndex on both sides, try the MultiIndex operation first half of the time)
    first = ["mi-coerce"] if spec.get("index") and "multi" in spec["index"] and draw(st.booleans()) else []
    for _attempt in range(nops + 5):
        if len(opts) >= nops:
            break
        op = first.pop() if first else draw(st.sampled_from(["coerce", "coerce", "coerce-bad", "default", "add_missing", "filter", "drop", "index-coerce",
                                   "schema-coerce", "parser", "parser", "mi-coerce"]))
        if op in ("coerce", "coerce-bad", "schema-coerce") and plain:
            c = draw(st.sampled_from(plain))
            if c.get("dtype") in (None, "object") or c["name"] in touched:
                continue
            tc = tcs[c["name"]]
            if c["dtype"] not in ACCEPTED_TAGS.get(tc["phys"], []):
                continue  # (repair did not reach a conforming column: nothing to re-encode)
            touched.add(c["name"])
            try:
                phys, cells = _rerepresent(draw, tc, c["dtype"])
            except (ValueError, TypeError):
                phys, cells = tc["phys"], tc["cells"]
            if op == "coerce-bad" and cells:
                i = draw(st.integers(0, len(cells) - 1))
                phys, cells = "object", [x if j != i else draw(st.sampled_from(["x", "1.5", "", "nan"])) for j, x in enumerate(
                    [None if v is None else (v if isinstance(v, str) else str(v)) for v in cells])]
            tc["phys"], tc["cells"] = phys, cells
            if op == "schema-coerce" and kind == "dataframe":
                spec["coerce"] = True
            else:
                c["coerce"] = True
            opts.append(op)
        elif op == "parser" and plain:
            # a user parser (abs, pure or writing in place; column- or frame-level) and cells it repairs: some of the
            # conforming non-negative cells are negated, so validation passes only on the parsed data
            cands = [c for c in plain if c["name"] not in touched and tcs[c["name"]]["phys"] in ("int64", "float64")
                     and all(v is None or v >= 0 for v in tcs[c["name"]]["cells"])]
            if not cands:
                continue
            c = draw(st.sampled_from(cands))
            touched.add(c["name"])
            tc = tcs[c["name"]]
            tc["cells"] = [v if v is None or not draw(st.booleans()) else -v for v in tc["cells"]]
            level = draw(st.sampled_from(["column", "column", "frame"])) if kind == "dataframe" else "column"
            variant = draw(st.sampled_from(["", "_inplace"]))
            if level == "column":
                c["parsers"] = [{"kind": "abs" + variant}]
            else:
                spec["parsers"] = list(spec.get("parsers") or []) + [{"kind": "frame_abs" + variant, "column": c["name"]}]
            opts.append(op)
        elif op == "default" and plain:
            c = draw(st.sampled_from(plain))
            if c["name"] in touched:
                continue
            touched.add(c["name"])
            tc = tcs[c["name"]]
            nn = [v for v in tc["cells"] if v is not None]
            if tc["phys"] in ("float64", "object", "datetime64[ns]", "Int64", "string") and nn and c.get("dtype") not in (None,):
                d = draw(st.sampled_from(nn))
                if tc["cells"]:
                    i = draw(st.integers(0, len(tc["cells"]) - 1))
                    tc["cells"] = [None if j == i else v for j, v in enumerate(tc["cells"])]
                c["default"] = d
                c["nullable"] = draw(st.booleans())
                c["unique"] = False
                opts.append(op)
        elif op == "add_missing" and kind == "dataframe" and plain:
            c = draw(st.sampled_from(plain))
            if c.get("parsers") or any(p.get("column") == c["name"] for p in (spec.get("parsers") or [])):
                continue  # (the harness' numeric parsers are not total on the null-filled column that would be added)
            tc = tcs[c["name"]]
            nn = [v for v in tc["cells"] if v is not None]
            r = draw(st.integers(0, 3))
            if r == 0:
                c["nullable"] = True
                c["checks"] = []
            elif r < 3 and nn:
                c["default"] = draw(st.sampled_from(nn))
                c["unique"] = False
            c["required"] = True
            table["columns"] = [t for t in table["columns"] if t["name"] != c["name"]]
            tcs.pop(c["name"], None)
            plain = [p for p in plain if p["name"] != c["name"]]
            spec["add_missing_columns"] = True
            if spec.get("unique"):
                spec["unique"] = None
            if draw(st.integers(0, 2)) == 0:
                # an optional column that is not in the data either, declared in front of the column to be added: only
                # the required one is to be inserted
                used = {x["name"] for x in spec["columns"]} | {t["name"] for t in table["columns"]}
                free = [x for x in ("opt_q", "opt_r") if x not in used]
                if free:
                    pos = next(i for i, x in enumerate(spec["columns"]) if x is c)
                    spec["columns"].insert(pos, {"name": free[0], "dtype": draw(st.sampled_from(["int64", "str", None])),
                                                 "nullable": False, "unique": False, "checks": [], "required": False})
            if not spec.get("ordered") and draw(st.integers(0, 1)) == 0:
                # where the added column is put matters to an ordered schema: switch ordering on when the columns that
                # are there already follow the schema's order (the pair stays conforming)
                declared = [x["name"] for x in spec["columns"] if not x.get("regex")]
                there = [t["name"] for t in table["columns"]]
                if not any(x.get("regex") for x in spec["columns"]) and all(t in declared for t in there) \
                        and there == [d for d in declared if d in there]:
                    spec["ordered"] = True
            opts.append(op)
        elif op == "filter" and kind == "dataframe":
            spec["strict"] = "filter"
            n = table_nrows_local(table)
            extra = draw(st.sampled_from(["zz", "yy"]))
            if extra not in [t["name"] for t in table["columns"]] and extra not in [c["name"] for c in spec["columns"]]:
                table["columns"].insert(draw(st.integers(0, len(table["columns"]))),
                                        {"name": extra, "phys": "int64", "cells": list(range(n))})
            opts.append(op)
        elif op == "drop" and not touched:
            case2 = draw(tighten(case, ops=ROW_OPS))
            spec, table = case2["spec"], case2["table"]
            case = case2
            tcs = {c["name"]: c for c in table["columns"]}
            plain = [c for c in spec["columns"] if not c.get("regex") and c["name"] in tcs]
            spec["drop_invalid_rows"] = True
            _uniquify_index(table)
            opts.append(op)
        elif op == "mi-coerce" and "mi-coerce" not in opts:
            # a conforming MultiIndex whose schema lists the (named) levels in another order than the data, coercion on:
            # every level already has its type, so coercion must hand the index back as it is
            if not (spec.get("index") and "multi" in spec["index"] and table.get("index") and "multi" in table["index"]
                    and [l.get("name") for l in spec["index"]["multi"]] == [l.get("name") for l in table["index"]["multi"]]):
                # (the drawn pair has no such index: it gets one - a fixed share of the cases, not a lucky draw)
                if not draw(st.booleans()):
                    continue
                from . import spec as _sp

                n_ = _sp.table_nrows(table)
                table.pop("nrows", None)
                phys2 = draw(st.sampled_from(["object", "int64"]))
                l1 = draw(cells_strategy("int64", n_))
                l2 = draw(st.lists(st.sampled_from(_pool(phys2)), min_size=n_, max_size=n_))
                nm = draw(st.sampled_from([["i", "j"], ["j", "i"], ["i", "k"]]))
                table["index"] = {"multi": [{"name": nm[0], "phys": "int64", "cells": l1}, {"name": nm[1], "phys": phys2, "cells": l2}]}
                spec["index"] = {"multi": [{"name": nm[0], "dtype": "int64", "nullable": False, "unique": False, "checks": []},
                                           {"name": nm[1], "dtype": "str" if phys2 == "object" else "int64", "nullable": False,
                                            "unique": False, "checks": []}], "strict": False, "ordered": True}
            sl, tl = spec["index"]["multi"], table["index"]["multi"]
            names = [l.get("name") for l in tl]
            if len(sl) >= 2 and len(sl) == len(tl) and None not in names and len(set(names)) == len(names) \
                    and [l.get("name") for l in sl] == names \
                    and all(l.get("dtype") == t["phys"] or (l.get("dtype") == "str" and t["phys"] == "object"
                                                            and all(isinstance(c, str) for c in t["cells"]))
                            for l, t in zip(sl, tl)):
                spec["index"]["multi"] = list(reversed(sl))
                spec["index"]["ordered"] = False
                if draw(st.booleans()):
                    spec["index"]["coerce"] = True
                else:
                    for l in spec["index"]["multi"]:
                        l["coerce"] = True
                opts.append(op)
        elif op == "index-coerce" and spec.get("index") and "multi" not in spec["index"] and table.get("index") \
                and "multi" not in table["index"]:
            ixs, ixt = spec["index"], table["index"]
            if ixs.get("dtype") == "str" and ixt["phys"] == "object" and ixt["cells"] \
                    and all(isinstance(v, str) for v in ixt["cells"]):
                # an object index that already "is" a string index by its dtype, with one label that is a number:
                # coercion has to turn that label into text
                i = draw(st.integers(0, len(ixt["cells"]) - 1))
                num = draw(st.sampled_from([7, 12, 0, 2.5]))
                ixt["cells"] = [num if j == i else v for j, v in enumerate(ixt["cells"])]
                ixs["checks"] = []
                if str(num) in ixt["cells"]:
                    ixs["unique"] = False
                ixs["coerce"] = True
                opts.append(op)
                continue
            if ixs.get("dtype") in ("int64", "float64") and not any(v is None for v in ixt["cells"]):
                if ixs["dtype"] == "int64":
                    ixt["phys"], ixt["cells"] = "object", [str(v) for v in ixt["cells"]]
                else:
                    if all(v == int(v) for v in ixt["cells"]):
                        ixt["phys"], ixt["cells"] = "int64", [int(v) for v in ixt["cells"]]
                ixs["coerce"] = True
                opts.append(op)
    case = {"spec": spec, "table": table, "parser_ops": opts, "touched": sorted(touched),
            "lazy": draw(st.booleans()) or bool(spec.get("drop_invalid_rows")),
            "inplace": draw(st.integers(0, 4)) == 0}
    return case


def table_nrows_local(table):
    from .spec import table_nrows

    return table_nrows(table)


def _uniquify_index(table):
    """drop_invalid_rows is documented for unique indexes only: rewrite duplicated / null labels."""
    ix = table.get("index")
    if ix is None:
        return
    levels = ix["multi"] if "multi" in ix else [ix]
    n = len(levels[0]["cells"])
    tuples = list(zip(*[l["cells"] for l in levels]))
    if len(set(map(repr, tuples))) == len(tuples) and not any(c is None for t in tuples for c in t):
        return
    l = levels[-1]
    if l["phys"] in ("int64", "int32", "Int64"):
        l["cells"] = [(-3 + 2 * i) if i % 2 else (10 - i) for i in range(n)]
    elif l["phys"] in ("float64", "float32"):
        l["cells"] = [0.5 * i - 1.0 for i in range(n)]
    elif l["phys"] == "datetime64[ns]":
        l["cells"] = list(range(n))
    else:
        l["cells"] = [f"k{i}" for i in range(n)]
    for l in levels[:-1]:
        l["cells"] = [c if c is not None else (0 if l["phys"] != "object" else "z") for c in l["cells"]]
