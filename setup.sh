#!/bin/sh
# Offline setup: hypothesis/jsonschema are already in /venv; atheris (optional, thorough fuzz tier)
# is installed from the offline wheelhouse into /verif/.deps.  Failure here is not fatal: the
# atheris sub-checks then report "skipped" in evidence.
cd "$(dirname "$0")" || exit 1
/venv/bin/python -c "import hypothesis, jsonschema" || /venv/bin/pip install --no-index --find-links /opt/veriftools/wheels hypothesis jsonschema || exit 1
if [ ! -d .deps/atheris ]; then
  /venv/bin/pip install -q --no-index --find-links /opt/veriftools/wheels --target .deps atheris >/dev/null 2>&1 || echo "atheris not installed (optional)"
fi
mkdir -p evidence out
exit 0
