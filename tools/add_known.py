#!/usr/bin/env python3
"""tools/add_known.py <finding id> <violation/replay json> <what> <root_cause>
Copies the case of a violation file to replays/<PID>/known_<slug>.json (the witness) and appends the entry to
known_findings.json "known".  Run by hand after triage; never by the checks."""
import json, os, re, sys
ROOT = os.path.dirname(os.path.dirname(os.path.abspath(__file__)))
fid, src, what, root = sys.argv[1:5]
pid, slug = fid.split("/", 1)
rec = json.load(open(src))
wit = f"replays/{pid}/known_{re.sub(r'[^A-Za-z0-9]+', '_', slug)[:60]}.json"
os.makedirs(os.path.join(ROOT, "replays", pid), exist_ok=True)
json.dump({"property": pid, "family": rec["family"], "case": rec["case"]}, open(os.path.join(ROOT, wit), "w"), indent=1)
kf = json.load(open(os.path.join(ROOT, "known_findings.json")))
kf["known"] = [k for k in kf["known"] if k["id"] != fid]
kf["known"].append({"id": fid, "property": pid, "what": what, "root_cause": root, "witness": wit})
json.dump(kf, open(os.path.join(ROOT, "known_findings.json"), "w"), indent=1)
print("added", fid, wit)
