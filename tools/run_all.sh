#!/bin/sh
# tools/run_all.sh [tier] [ids...] : run checks sequentially, print one line per check
TIER="${1:-quick}"; shift 2>/dev/null
IDS="${*:-C01 C02 C03 C04 C05 C06 C07 C08 C09 C10 C11 C12 C13 C14 C15 C16 C17 C18 C19 C20}"
cd "$(dirname "$0")/.." || exit 2
for id in $IDS; do
  [ -f harness/props/$(echo $id | tr A-Z a-z).py ] || { echo "$id: no module"; continue; }
  s=$(date +%s)
  out=$(./check $id --tier $TIER --no-shrink 2>&1); rc=$?
  e=$(( $(date +%s) - s ))
  echo "$id rc=$rc ${e}s $(echo "$out" | grep -c '^KNOWN-FINDING') known; $(echo "$out" | grep -E '^C[0-9]+ tier' | sed 's/.*evaluations=/ev=/')"
  [ $rc -ne 0 ] && echo "$out" | grep -E "VIOLATION|HARNESS|kind=" | head -6 | cut -c1-400
done
