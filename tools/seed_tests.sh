#!/bin/sh
# tools/seed_tests.sh <patch.diff> <label> [pyspark]
# Confirms that a seeded change still passes the repository's stable tests: a scratch copy of /repo's working tree
# (pandera/, tests/, config files) gets the patch, the pinned suite is run there one process per test directory
# (tests/pyspark only when asked: 7 minutes), and the result is compared with BASELINE.json stable_pass restricted to the
# directories that were run.  Prints "SEED-TESTS <label> missing=<n> ran=<dirs>"; removes the scratch copy.
PATCH="$(readlink -f "$1")"; LABEL="$2"; PYSPARK="$3"
T="$(mktemp -d /tmp/seedtests-XXXXXX)"
trap 'rm -rf "$T"' EXIT
mkdir -p "$T/repo" "$T/out"
for f in pandera tests setup.cfg setup.py pyproject.toml mypy.ini docs; do [ -e /repo/$f ] && cp -r /repo/$f "$T/repo/$f"; done
( cd "$T/repo" && patch -s -p1 < "$PATCH" ) || { echo "SEED-TESTS $LABEL patch-failed"; exit 3; }
unset PANDERA_VERIF
export PYSPARK_PYTHON=/venv/bin/python PYSPARK_DRIVER_PYTHON=/venv/bin/python
cd "$T/repo" || exit 2
GROUPS_="tests/core tests/strategies tests/polars tests/io tests/geopandas tests/modin"
[ -n "$PYSPARK" ] && GROUPS_="$GROUPS_ tests/pyspark"
if [ -n "$SEED_TEST_GROUPS" ]; then
  # reduced confirmation: only the listed test directories (the comparison is restricted to them)
  for g in $SEED_TEST_GROUPS; do
    n=$(echo "$g" | tr '/ ' '__')
    /venv/bin/python -m pytest -ra -q -p no:cacheprovider --timeout=900 --continue-on-collection-errors --junitxml="$T/out/$n.xml" $g >"$T/out/$n.log" 2>&1 &
  done
else
for g in $GROUPS_ "tests/dask tests/fastapi tests/hypotheses tests/mypy tests/test_inspection_utils.py"; do
  n=$(echo "$g" | tr '/ ' '__')
  /venv/bin/python -m pytest -ra -q -p no:cacheprovider --timeout=900 --continue-on-collection-errors --junitxml="$T/out/$n.xml" $g >"$T/out/$n.log" 2>&1 &
done
fi
wait
/venv/bin/python - "$T/out" "$LABEL" "$PYSPARK" <<'PY'
import glob, json, os, sys, xml.etree.ElementTree as ET
base = json.load(open("/root/.vp/BASELINE.json"))
ran_pyspark = bool(sys.argv[3])
stable = {t for t in base["stable_pass"] if ran_pyspark or not t.startswith("tests.pyspark")}
only = os.environ.get("SEED_TEST_GROUPS", "").split()
if only:
    pref = tuple(g.replace("/", ".") + "." for g in only)
    stable = {t for t in stable if t.startswith(pref)}
passed = set()
for f in glob.glob(sys.argv[1] + "/*.xml"):
    for tc in ET.parse(f).getroot().iter("testcase"):
        bad = [ch for ch in tc if ch.tag in ("failure", "error") or (ch.tag == "skipped" and ch.get("type") != "pytest.xfail")]
        if not bad:
            passed.add(f"{tc.get('classname')}::{tc.get('name')}")
# imports docs/source/conf.py, which needs repository files outside the scratch copy: fails there with a no-op patch too
ARTEFACT = {"tests.core.test_docs_setting_column_widths::test_sphinx_doctest_setting_global_pandas_conditions"}
missing = sorted(stable - passed - ARTEFACT)
print(f"SEED-TESTS {sys.argv[2]} missing={len(missing)} stable_checked={len(stable)} pyspark={'yes' if ran_pyspark else 'no'}"
      + (f" groups={','.join(only)}" if only else ""))
for m in missing[:8]:
    print("  MISSING", m)
PY
