#!/bin/sh
# tools/seed_run.sh <patch.diff> <ID> [extra ./check args...]
# Runs ./check <ID> against a scratch copy of /repo/pandera with the patch applied (PANDERA_SRC), with evidence/out
# redirected into the scratch dir so /verif/evidence is not touched; removes the scratch copy afterwards.
# Prints "SEED-RESULT <ID> exit=<rc>" and the VIOLATION/kind lines.
PATCH="$(readlink -f "$1")"; ID="$2"; shift 2
HERE="$(cd "$(dirname "$0")/.." && pwd)"
T="$(mktemp -d /tmp/seedrun-XXXXXX)"
trap 'rm -rf "$T"' EXIT
cp -r /repo/pandera "$T/pandera"
( cd "$T" && patch -s -p1 < "$PATCH" ) || { echo "SEED-RESULT $ID patch-failed"; exit 3; }
cd "$HERE" || exit 2
PANDERA_SRC="$T" VERIF_EVIDENCE_DIR="$T/evidence" VERIF_OUT_DIR="$T/out" ./check "$ID" --no-shrink "$@" >"$T/log" 2>&1
rc=$?
echo "SEED-RESULT $ID exit=$rc $(grep -E '^C[0-9]+ tier' "$T/log" | sed 's/.*evaluations=/ev=/')"
grep -E "^VIOLATION|^  family=|HARNESS-ERROR" "$T/log" | cut -c1-500 | head -12
[ $rc -eq 2 ] && tail -15 "$T/log"
exit $rc
