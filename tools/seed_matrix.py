#!/usr/bin/env python3
"""tools/seed_matrix.py [ids...]  - re-runs every kept seeded change (seeded/<id>/patch.diff) against the checks:
for each one a scratch copy of /repo/pandera gets the patch, demo.py is run on the clean and on the patched copy, and the
quick tier of the property's check (plus any extra checks listed in meta.json "also_checks") is run with PANDERA_SRC
pointing at the patched copy (evidence/out redirected, nothing under /verif/evidence is touched).  Writes
seeded/<id>/result.json and prints one line per seed.  Scratch copies are removed."""
import json, os, re, shutil, subprocess, sys, tempfile
from concurrent.futures import ThreadPoolExecutor
ROOT = os.path.dirname(os.path.dirname(os.path.abspath(__file__)))


def run_one(sid):
    d = os.path.join(ROOT, "seeded", sid)
    meta = json.load(open(os.path.join(d, "meta.json")))
    t = tempfile.mkdtemp(prefix="seedmx-", dir="/tmp")
    try:
        for sub in ("clean", "mut"):
            shutil.copytree("/repo/pandera", os.path.join(t, sub, "pandera"))
        p = subprocess.run(["patch", "-s", "-p1", "-i", os.path.join(d, "patch.diff")], cwd=os.path.join(t, "mut"), capture_output=True, text=True)
        if p.returncode:
            return sid, {"patch_applies": False, "err": (p.stdout + p.stderr)[-300:]}
        res = {"patch_applies": True}
        for sub in ("clean", "mut"):
            env = dict(os.environ, PYTHONPATH=os.path.join(t, sub))
            r = subprocess.run(["/venv/bin/python", "-W", "ignore", os.path.join(d, "demo.py")], cwd=os.path.join(t, sub), env=env,
                               capture_output=True, text=True, timeout=900)
            res["demo_" + ("clean" if sub == "clean" else "patched")] = r.returncode
        checks = [meta["property"]] + list(meta.get("also_checks", []))
        res["checks"] = {}
        for cid in checks:
            env = dict(os.environ, PANDERA_SRC=os.path.join(t, "mut"), VERIF_EVIDENCE_DIR=os.path.join(t, "ev"),
                       VERIF_OUT_DIR=os.path.join(t, "out"))
            r = subprocess.run(["./check", cid, "--no-shrink"], cwd=ROOT, env=env, capture_output=True, text=True, timeout=3600)
            kinds = re.findall(r"^  family=(\S+) kind=(\S+) count=(\d+)", r.stdout, re.M)
            res["checks"][cid] = {"exit": r.returncode, "violations": [f"{f}:{k} x{c}" for f, k, c in kinds][:8]}
        return sid, res
    finally:
        shutil.rmtree(t, ignore_errors=True)


def main():
    ids = sys.argv[1:] or sorted(x for x in os.listdir(os.path.join(ROOT, "seeded")) if os.path.exists(os.path.join(ROOT, "seeded", x, "meta.json")))
    with ThreadPoolExecutor(int(os.environ.get("SEED_JOBS", "3"))) as ex:
        for sid, res in ex.map(run_one, ids):
            json.dump(res, open(os.path.join(ROOT, "seeded", sid, "result.json"), "w"), indent=1)
            caught = [c for c, v in res.get("checks", {}).items() if v["exit"] == 1]
            print(f"{sid}: applies={res.get('patch_applies')} demo clean={res.get('demo_clean')} patched={res.get('demo_patched')} "
                  f"caught_by={caught or 'NONE'}")


if __name__ == "__main__":
    main()
