#!/bin/sh
# tools/seed_eval.sh <out-dir of an agent> <n> <seed-id> <check ids...>
#  1. applies patch<n>.diff to a scratch copy of /repo (current HEAD working tree)
#  2. runs demo<n>.py on the clean and on the patched copy (expects exit 0 / non-zero)
#  3. runs each listed check (quick tier) against the patched copy
# Prints a summary; copies patch/demo to /verif/seeded/<seed-id>/ (meta.json is written by hand / by seed_meta.py).
OUT="$1"; N="$2"; SID="$3"; shift 3
HERE="$(cd "$(dirname "$0")/.." && pwd)"
T="$(mktemp -d /tmp/seedeval-XXXXXX)"
trap 'rm -rf "$T"' EXIT
mkdir -p "$T/clean" "$T/mut"
cp -r /repo/pandera "$T/clean/pandera"; cp -r /repo/pandera "$T/mut/pandera"
( cd "$T/mut" && patch -s -p1 < "$OUT/patch$N.diff" ) || { echo "$SID: PATCH-FAILED"; exit 3; }
( cd "$T/clean" && PYTHONPATH="$T/clean" timeout 600 /venv/bin/python "$OUT/demo$N.py" >"$T/demo_clean.log" 2>&1 ); rc_clean=$?
( cd "$T/mut" && PYTHONPATH="$T/mut" timeout 600 /venv/bin/python "$OUT/demo$N.py" >"$T/demo_mut.log" 2>&1 ); rc_mut=$?
echo "$SID: demo clean=$rc_clean patched=$rc_mut"
[ $rc_clean -ne 0 ] && tail -5 "$T/demo_clean.log"
mkdir -p "$HERE/seeded/$SID"
cp "$OUT/patch$N.diff" "$HERE/seeded/$SID/patch.diff"; cp "$OUT/demo$N.py" "$HERE/seeded/$SID/demo.py"
cd "$HERE" || exit 2
for ID in "$@"; do
  PANDERA_SRC="$T/mut" VERIF_EVIDENCE_DIR="$T/evidence" VERIF_OUT_DIR="$T/out" ./check "$ID" --no-shrink >"$T/$ID.log" 2>&1
  rc=$?
  echo "$SID: check $ID exit=$rc $(grep -E '^C[0-9]+ tier' "$T/$ID.log" | sed 's/.*evaluations=/ev=/')"
  grep -E "^  family=|HARNESS-ERROR" "$T/$ID.log" | cut -c1-300 | head -4
  [ $rc -eq 2 ] && tail -8 "$T/$ID.log"
done
