#!/usr/bin/env python3
"""Regenerates the generated tables of DESIGN.md (between BEGIN:/END: markers) from known_findings.json and seeded/*/."""
import json, os, re, glob
ROOT = os.path.dirname(os.path.dirname(os.path.abspath(__file__)))
s = open(os.path.join(ROOT, "DESIGN.md")).read()
kf = json.load(open(os.path.join(ROOT, "known_findings.json")))
rows = ["| known finding | what fails |", "|---|---|"]
for e in sorted(kf["known"], key=lambda e: e["id"]):
    what = e["what"].replace("|", "\\|")
    rows.append(f"| `{e['id']}` | {what[:230]}{'…' if len(what) > 230 else ''} |")
tbl = "\n".join(rows)
s = re.sub(r"<!-- BEGIN:known-table -->.*?<!-- END:known-table -->", lambda m: "<!-- BEGIN:known-table -->\n" + tbl + "\n<!-- END:known-table -->", s, flags=re.S)
rows = ["| seeded change | property | breaks | needs | caught before strengthening | detected by (quick tier) | what was strengthened |", "|---|---|---|---|---|---|---|"]
for d in sorted(glob.glob(os.path.join(ROOT, "seeded", "*"))):
    mp = os.path.join(d, "meta.json")
    if not os.path.exists(mp):
        continue
    m = json.load(open(mp))
    r = json.load(open(os.path.join(d, "result.json"))) if os.path.exists(os.path.join(d, "result.json")) else {}
    caught = [c for c, v in r.get("checks", {}).items() if v.get("exit") == 1]
    det = (", ".join(caught) + ": " if caught else "") + m.get("detected_by", "")
    if r and not caught:
        det = "**not detected** - " + m.get("detected_by", "")
    esc = lambda x: str(x).replace("|", "\\|")
    rows.append(f"| `{m['id']}` | {m['property']} | {esc(m['breaks'])[:160]} | {esc(m['needs_to_manifest'])[:160]} | {'yes' if m.get('caught_before_strengthening') else 'no'} | {esc(det)[:170]} | {esc(m.get('strengthening_done',''))[:200]} |")
tbl = "\n".join(rows)
s = re.sub(r"<!-- BEGIN:seeded-table -->.*?<!-- END:seeded-table -->", lambda m: "<!-- BEGIN:seeded-table -->\n" + tbl + "\n<!-- END:seeded-table -->", s, flags=re.S)
open(os.path.join(ROOT, "DESIGN.md"), "w").write(s)
print("tables regenerated")
