#!/usr/bin/env python3
"""tools/apply_fix.py <diff> "<title without 'fix: '>" : apply a proposed fix to /repo as ONE 'fix:' commit.
The commit body is the diff's leading '#' rationale lines."""
import subprocess, sys, re
diff, title = sys.argv[1], sys.argv[2]
txt = open(diff).read()
body = "\n".join(l[1:].strip() for l in txt.splitlines() if l.startswith("#")).strip()
patch = "\n".join(l for l in txt.splitlines() if not l.startswith("#")) + "\n"
st = subprocess.run(["git", "-C", "/repo", "status", "--porcelain"], capture_output=True, text=True).stdout.strip()
if st:
    sys.exit("repo not clean:\n" + st)
r = subprocess.run(["patch", "-p1", "--no-backup-if-mismatch", "-d", "/repo"], input=patch, capture_output=True, text=True)
print(r.stdout.strip()[-400:], r.stderr.strip()[-400:])
if r.returncode != 0:
    subprocess.run(["git", "-C", "/repo", "checkout", "--", "."])
    subprocess.run(["git", "-C", "/repo", "clean", "-fdq"])
    sys.exit("patch failed")
subprocess.run(["git", "-C", "/repo", "add", "-A"], check=True)
subprocess.run(["git", "-C", "/repo", "commit", "-q", "-m", f"fix: {title}\n\n{body}"], check=True)
print(subprocess.run(["git", "-C", "/repo", "log", "--oneline", "-1"], capture_output=True, text=True).stdout.strip())
