#!/usr/bin/env python3
"""tools/seed_ingest.py <agent-out-dir> <seed-id> [extra check ids...]
Takes a sub-agent's deliverables (patch.diff, demo.py, notes.json), confirms them on scratch copies of /repo
(tools/seed_eval.sh: demo on clean / patched copy, quick tier of the property's check against the patched copy;
tools/seed_tests.sh with SEED_TEST_GROUPS: the repository's stable tests of those directories on a patched copy) and
writes seeded/<seed-id>/{patch.diff,demo.py,meta.json}.  Nothing is kept when the demo or the suite does not confirm."""
import json, os, re, shutil, subprocess, sys
ROOT = os.path.dirname(os.path.dirname(os.path.abspath(__file__)))


def main():
    out, sid, extra = sys.argv[1], sys.argv[2], sys.argv[3:]
    pid = sid.split("-")[0]
    notes = json.load(open(os.path.join(out, "notes.json")))
    groups = os.environ.get("SEED_TEST_GROUPS", "tests/core")
    tests = subprocess.Popen(["sh", os.path.join(ROOT, "tools/seed_tests.sh"), os.path.join(out, "patch.diff"), sid],
                             env=dict(os.environ, SEED_TEST_GROUPS=groups), stdout=subprocess.PIPE, stderr=subprocess.STDOUT, text=True)
    ev = subprocess.run(["sh", os.path.join(ROOT, "tools/seed_eval.sh"), out, "", sid, pid, *extra], capture_output=True, text=True)
    print(ev.stdout[-3000:])
    m = re.search(r"demo clean=(\d+) patched=(\d+)", ev.stdout)
    demo_ok = bool(m) and m.group(1) == "0" and m.group(2) != "0"
    caught = re.findall(r"check (C\d+) exit=1", ev.stdout)
    kinds = re.findall(r"^  family=(\S+) kind=(\S+)", ev.stdout, re.M)
    tout = tests.communicate()[0]
    print(tout[-1500:])
    tm = re.search(r"SEED-TESTS \S+ missing=(\d+)", tout)
    d = os.path.join(ROOT, "seeded", sid)
    if not demo_ok or not tm or int(tm.group(1)) > 0:
        print(f"{sid}: NOT KEPT demo_ok={demo_ok} tests={'?' if not tm else tm.group(1)}")
        shutil.rmtree(d, ignore_errors=True)
        return 1
    meta = {
        "id": sid, "property": pid, "breaks": notes.get("breaks"), "needs_to_manifest": notes.get("needs_to_manifest"),
        "origin": "fresh sub-agent given only the property text (plus one-line descriptions of the earlier ideas to avoid) and a scratch "
                  "git worktree of /repo (wave 8, 2026-09-29)",
        "caught_before_strengthening": bool(caught), "detected_by": ",".join(caught),
        "detected_as": [f"{f}:{k}" for f, k in kinds][:6],
        "strengthening_done": "none needed" if caught else "PENDING", "also_checks": [c for c in extra],
        "what_i_ran": [
            "tools/seed_ingest.py -> tools/seed_eval.sh: patch applied to a scratch copy of /repo/pandera, demo.py on clean (exit 0) and patched "
            "(exit !=0) copy, ./check <property> --tier quick with PANDERA_SRC=<patched copy>",
            f"tools/seed_tests.sh with SEED_TEST_GROUPS={groups}: those directories of the repository's pinned suite on a scratch copy with the "
            "patch, compared with BASELINE.json stable_pass restricted to them; the sub-agent ran its own before/after comparison in its worktree",
        ],
        "agent_tests_run": notes.get("tests_run"),
        "tests_result": {"missing": int(tm.group(1)), "test_directories": groups.split(), "raw": tm.group(0), "missing_tests": re.findall(r"MISSING (\S+)", tout)},
    }
    json.dump(meta, open(os.path.join(d, "meta.json"), "w"), indent=1)
    print(f"{sid}: KEPT caught_by={caught or 'NONE'} tests_missing={tm.group(1)}")
    return 0


if __name__ == "__main__":
    sys.exit(main())
