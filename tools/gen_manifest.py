#!/usr/bin/env python3
"""Regenerates MANIFEST.json from harness/manifest_data.py (single source of truth)."""
import json, os, sys
sys.path.insert(0, os.path.dirname(os.path.dirname(os.path.abspath(__file__))))
from harness.manifest_data import CHECKS, NOT_APPLICABLE, HOOK_COMMITS, NOTES

props = [json.loads(l)["id"] for l in open(os.path.join(os.path.dirname(__file__), "..", "properties.jsonl"))]
checks = []
for pid in props:
    if pid not in CHECKS:
        continue
    c = CHECKS[pid]
    checks.append({
        "property_id": pid,
        "quick_cmd": f"./check {pid} --tier quick",
        "thorough_cmd": f"./check {pid} --tier thorough",
        "evidence_file": f"/verif/evidence/{pid}.json",
        "replay_cmd_template": f"./check {pid} --replay {{path}}",
        "engine": "harness",
        "level_claimed": {"category": c.get("category", "exploration"), "text": c["text"], "design_ref": c["design_ref"]},
        "level_note": c["note"],
        "technique": c["technique"],
    })
na = [{"property_id": p, "reason": NOT_APPLICABLE.get(p, "check not built yet in this round (work in progress); no claim made")}
      for p in props if p not in CHECKS]
m = {
    "version": 1,
    "setup_cmd": "./setup.sh",
    "hooks": {
        "guard": "PANDERA_VERIF",
        "enable": "the ./check wrapper exports PANDERA_VERIF=1 and puts /repo's working tree first on PYTHONPATH (pandera is pure Python: a fresh interpreter is the rebuild)",
        "baseline_off_cmd": "cd /repo && env -u PANDERA_VERIF /venv/bin/python -m pytest -ra -q -p no:cacheprovider --timeout=900 --continue-on-collection-errors",
        "source_commits": HOOK_COMMITS,
        "add_only": True,
    },
    "engines": [{"name": "harness", "path": "/verif/harness", "serves_properties": [c["property_id"] for c in checks],
                 "kind_free_text": "Hypothesis generators + explicit oracles (reference model, round trips, differential, metamorphic, history invariants), collect-then-shrink runner, exhaustive enumeration of finite sub-spaces"}],
    "checks": checks,
    "notes": NOTES,
    "not_applicable": na,
}
json.dump(m, open(os.path.join(os.path.dirname(__file__), "..", "MANIFEST.json"), "w"), indent=1)
print(f"{len(checks)} checks, {len(na)} not claimed")
