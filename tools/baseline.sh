#!/bin/sh
# Runs the repository's pinned suite (BASELINE.json command) with the hook guard OFF and
# compares against BASELINE.json's stable_pass list.  -n 16 (pytest-xdist) only parallelises.
unset PANDERA_VERIF
OUT="${1:-/tmp/pandera-baseline.junit.xml}"
cd /repo && /venv/bin/python -m pytest -ra -q -p no:cacheprovider --timeout=900 --continue-on-collection-errors -n ${VERIF_PROCS:-16} --junitxml="$OUT" >/tmp/pandera-baseline.log 2>&1
/venv/bin/python - "$OUT" <<'PY'
import json, sys, xml.etree.ElementTree as ET
base = json.load(open("/root/.vp/BASELINE.json"))
stable = set(base["stable_pass"])
passed = set()
for tc in ET.parse(sys.argv[1]).getroot().iter("testcase"):
    if not any(ch.tag in ("failure", "error", "skipped") for ch in tc):
        passed.add(f"{tc.get('classname')}::{tc.get('name')}")
missing = sorted(stable - passed)
print(f"stable_pass={len(stable)} passed_now={len(passed)} missing={len(missing)}")
for m in missing[:40]:
    print("  MISSING", m)
sys.exit(1 if missing else 0)
PY
