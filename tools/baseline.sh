#!/bin/sh
# Runs the repository's pinned suite with the hook guard OFF and compares against
# BASELINE.json's stable_pass list.
#   tools/baseline.sh fast [outdir]  - one pytest process per test file, 14 in parallel (~10 min)
#   tools/baseline.sh full [outdir]  - the exact BASELINE.json command, serial (13-45 min)
unset PANDERA_VERIF
export PYSPARK_PYTHON=/venv/bin/python PYSPARK_DRIVER_PYTHON=/venv/bin/python
MODE="${1:-fast}"
OUT="${2:-/tmp/pandera-baseline}"
rm -rf "$OUT"; mkdir -p "$OUT"
cd "${REPO_DIR:-/repo}" || exit 2
if [ "$MODE" = full ]; then
  /venv/bin/python -m pytest -ra -q -p no:cacheprovider --timeout=900 --continue-on-collection-errors --junitxml="$OUT/all.xml" >"$OUT/log" 2>&1
else
  # one pytest process per top-level test directory (files inside a directory keep their order:
  # some test modules rely on backends registered by earlier modules of the same directory)
  for g in tests/core tests/strategies tests/polars tests/pyspark tests/io tests/geopandas tests/modin "tests/dask tests/fastapi tests/hypotheses tests/mypy tests/test_inspection_utils.py"; do
    n=$(echo "$g" | tr '/ ' '__')
    /venv/bin/python -m pytest -ra -q -p no:cacheprovider --timeout=900 --continue-on-collection-errors --junitxml="$OUT/$n.xml" $g >"$OUT/$n.log" 2>&1 &
  done
  wait
fi
/venv/bin/python - "$OUT" <<'PY'
import glob, json, sys, xml.etree.ElementTree as ET
base = json.load(open("/root/.vp/BASELINE.json"))
stable = set(base["stable_pass"])
passed = set()
for f in glob.glob(sys.argv[1] + "/*.xml"):
    for tc in ET.parse(f).getroot().iter("testcase"):
        bad = [ch for ch in tc if ch.tag in ("failure", "error") or (ch.tag == "skipped" and ch.get("type") != "pytest.xfail")]
        if not bad:
            passed.add(f"{tc.get('classname')}::{tc.get('name')}")
missing = sorted(stable - passed)
print(f"stable_pass={len(stable)} passed_now={len(passed)} missing={len(missing)}")
for m in missing[:60]:
    print("  MISSING", m)
sys.exit(1 if missing else 0)
PY
