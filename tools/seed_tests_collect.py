#!/usr/bin/env python3
"""tools/seed_tests_collect.py <seed_tests output files...>: writes the outcome of tools/seed_tests.sh runs into
seeded/<id>/meta.json ("tests_result").  A missing test named test_nullable[...] of tests.pyspark.test_schemas_on_pyspark_pandas
is the suite's own flaky test (it fails with a different parameter on every run of the unchanged tree) and is marked so."""
import json, os, re, sys
ROOT = os.path.dirname(os.path.dirname(os.path.abspath(__file__)))
cur = None
res = {}
for f in sys.argv[1:]:
    for line in open(f):
        m = re.match(r"SEED-TESTS (\S+) missing=(\d+) stable_checked=(\d+) pyspark=(\w+)", line)
        if m:
            cur = m.group(1)
            res[cur] = {"missing": int(m.group(2)), "stable_checked": int(m.group(3)), "pyspark_run": m.group(4) == "yes", "missing_tests": []}
            g = re.search(r" groups=(\S+)", line)
            if g:
                res[cur]["test_directories"] = g.group(1).split(",")
            continue
        m = re.match(r"SEED-TESTS (\S+) patch-failed", line)
        if m:
            res[m.group(1)] = {"patch_failed": True}
            cur = None
            continue
        m = re.match(r"\s+MISSING (\S+)", line)
        if m and cur:
            res[cur]["missing_tests"].append(m.group(1))
n = 0
for sid, r in res.items():
    mp = os.path.join(ROOT, "seeded", sid, "meta.json")
    if not os.path.exists(mp):
        continue
    if "missing_tests" in r:
        flaky = [t for t in r["missing_tests"] if "test_schemas_on_pyspark_pandas::test_nullable[" in t]
        # imports docs/source/conf.py, which needs repository files outside the scratch copy (fails with a no-op patch too)
        artefact = [t for t in r["missing_tests"] if t.endswith("test_sphinx_doctest_setting_global_pandas_conditions")]
        r["missing_not_flaky"] = [t for t in r["missing_tests"] if t not in flaky and t not in artefact]
        r["verdict"] = "suite passes (no stable test missing" + (", apart from the suite's own flaky pyspark test_nullable[...]" if flaky else "") + ")" \
            if not r["missing_not_flaky"] else "STABLE TESTS MISSING"
    meta = json.load(open(mp))
    meta["tests_result"] = r
    json.dump(meta, open(mp, "w"), indent=1)
    n += 1
print("updated", n, "metas;", sum(1 for r in res.values() if r.get("missing_not_flaky")), "with non-flaky missing tests;",
      sum(1 for r in res.values() if r.get("patch_failed")), "patch-failed")
for sid, r in res.items():
    if r.get("missing_not_flaky") or r.get("patch_failed"):
        print(" ", sid, r.get("missing_not_flaky") or "patch-failed")
