#!/usr/bin/env python3
"""Sensitivity helper: tools/mut.py <CHECK-ID> <relative file under pandera/> <old> <new> [more check args]
Copies /repo/pandera to a scratch dir, applies the textual replacement (must match exactly once unless
MUT_ALL=1), runs ./check <ID> with PANDERA_SRC pointing at the copy, prints the last lines, removes the copy."""
import os, shutil, subprocess, sys, tempfile
pid, rel, old, new = sys.argv[1:5]
extra = sys.argv[5:]
d = tempfile.mkdtemp(prefix="mut-", dir="/tmp")
try:
    shutil.copytree("/repo/pandera", os.path.join(d, "pandera"))
    p = os.path.join(d, "pandera", rel)
    s = open(p).read()
    n = s.count(old)
    if n == 0 or (n > 1 and not os.environ.get("MUT_ALL")):
        print(f"MUTATION DID NOT APPLY: {n} matches"); sys.exit(3)
    open(p, "w").write(s.replace(old, new))
    env = dict(os.environ, PANDERA_SRC=d)
    r = subprocess.run(["./check", pid, "--no-shrink"] + extra, cwd=os.path.dirname(os.path.dirname(os.path.abspath(__file__))),
                       env=env, capture_output=True, text=True)
    out = (r.stdout + r.stderr).strip().splitlines()
    print(f"exit={r.returncode}")
    for l in out[-6:]:
        print("  " + l[:300])
finally:
    shutil.rmtree(d, ignore_errors=True)
