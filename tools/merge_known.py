#!/usr/bin/env python3
"""Folds known/<ID>.json fragments into known_findings.json.

For every fragment entry the witness is replayed against /repo: an entry whose witness no longer reproduces its id is
moved to "fixed" (with the /repo fix commit found through its proposed_fix diff or an explicit 'fixed_by'); the rest stay
"known".  Never run by the checks themselves."""
import glob, json, os, subprocess, sys
ROOT = os.path.dirname(os.path.dirname(os.path.abspath(__file__)))
os.chdir(ROOT)
sys.path[:0] = ["/repo", ROOT]
log = subprocess.run(["git", "-C", "/repo", "log", "--format=%h%x00%s%x00%b%x01", "c030c8e..HEAD"], capture_output=True, text=True).stdout
commits = []
for rec in log.split("\x01"):
    rec = rec.strip("\n")
    if rec:
        h, s, b = rec.split("\x00")
        commits.append((h, s, " ".join(b.split())))

def commit_for(diff):
    if not diff or not os.path.exists(diff):
        return None
    head = [l[1:].strip() for l in open(diff).read().splitlines() if l.startswith("#")]
    key = " ".join(" ".join(head).split())[:80]
    for h, s, b in commits:
        if key and key in b:
            return h, s
    return None

main = json.load(open("known_findings.json"))
known, fixed = [], list(main.get("fixed", []))
seen_fixed = set(fixed)
entries = list(main.get("known", []))
for f in sorted(glob.glob("known/*.json")):
    d = json.load(open(f))
    entries += d.get("known", [])
    for x in d.get("fixed", []):
        if isinstance(x, str) and x not in seen_fixed:
            fixed.append(x); seen_fixed.add(x)
ids = set()
for e in entries:
    if e["id"] in ids:
        continue
    ids.add(e["id"])
    pid = e["property"]
    r = subprocess.run(["./check", pid, "--replay", e["witness"]], capture_output=True, text=True)
    reproduces = f"KNOWN-FINDING: property={pid} {e['id']}" in r.stdout or (r.returncode == 1 and "VIOLATION" in r.stdout)
    if reproduces:
        known.append({k: v for k, v in e.items() if k != "proposed_fix"} | ({"proposed_fix": e["proposed_fix"]} if e.get("proposed_fix") else {}))
    else:
        c = commit_for(e.get("proposed_fix")) or (e.get("fixed_by") and (e["fixed_by"], ""))
        line = f"fixed: property={pid} {c[0] if c else '(see git log)'} {e['id']}: {e['what']}"
        if line not in seen_fixed:
            fixed.append(line); seen_fixed.add(line)
        print("FIXED", e["id"], c[0] if c else "?")
json.dump({"_comment": main.get("_comment", ""), "known": known, "fixed": fixed}, open("known_findings.json", "w"), indent=1)
print(len(known), "known;", len(fixed), "fixed")
